#!/usr/bin/env python3
"""MANIFEST.setup_cmd: warm the build cache (prod + asan library objects, c2m) from /repo as it is now."""
import os, sys
sys.path.insert(0, os.path.dirname(os.path.dirname(os.path.abspath(__file__))))
from core import build
import concurrent.futures as cf
with cf.ThreadPoolExecutor(max_workers=4) as ex:
    fs = [ex.submit(build.lib, v) for v in ("prod", "asan", "noinl")]
    for f in fs:
        f.result()
build.c2m("prod")
print("setup ok")
