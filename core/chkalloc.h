/* chkalloc.h - checking MIR_alloc / MIR_code_alloc implementations (DESIGN.md C17, C19).
   Ledger of live blocks with sizes; realloc must quote the recorded size; free of unknown/freed
   pointers is an error; freed blocks are quarantined, filled with 0xDD (and ASan-poisoned when
   available), verified untouched at chk_reset().  Errors are reported through chk_error(), which
   the including driver defines.  Header-only, single-threaded unless CHK_MT is defined.  */
#ifndef CHKALLOC_H
#define CHKALLOC_H
#include <stdlib.h>
#include <string.h>
#include <stdint.h>
#include <stdio.h>
#include <sys/mman.h>
#include "mir-alloc.h"
#include "mir-code-alloc.h"

#if defined(__SANITIZE_ADDRESS__)
#include <sanitizer/asan_interface.h>
#define CHK_POISON(p, n) ASAN_POISON_MEMORY_REGION (p, n)
#define CHK_UNPOISON(p, n) ASAN_UNPOISON_MEMORY_REGION (p, n)
#else
#define CHK_POISON(p, n) ((void) 0)
#define CHK_UNPOISON(p, n) ((void) 0)
#endif

void chk_error (const char *kind, const char *fmt, ...); /* defined by the driver */

#ifdef CHK_BT
#include <execinfo.h>
#endif
typedef struct chk_ent { void *p; size_t size; int state; /*0 empty 1 live 2 freed*/
#ifdef CHK_BT
  void *bt[10]; int nbt;
#endif
} chk_ent;
typedef struct chk_state {
  chk_ent *tab; size_t cap, n_used;
  size_t live_blocks, live_bytes, n_malloc, n_calloc, n_realloc, n_free, peak_bytes;
  size_t quarantine_bytes, quarantine_limit, quarantine_blocks;
  /* code allocator */
  struct { uint8_t *p; size_t len; int writable; int live; } maps[256];
  size_t n_maps, n_map, n_unmap, n_protect, live_maps;
} chk_state;

static inline size_t chk_slot (chk_state *s, void *p) {
  size_t i = ((uintptr_t) p >> 4) * 0x9E3779B97F4A7C15ull >> 20 & (s->cap - 1);
  while (s->tab[i].state != 0 && s->tab[i].p != p) i = (i + 1) & (s->cap - 1);
  return i;
}
static inline void chk_grow (chk_state *s) {
  if (s->cap == 0) { s->cap = 1 << 12; s->tab = calloc (s->cap, sizeof (chk_ent)); return; }
  if (s->n_used * 2 < s->cap) return;
  chk_ent *old = s->tab; size_t oc = s->cap;
  s->cap *= 2; s->tab = calloc (s->cap, sizeof (chk_ent)); s->n_used = 0;
  for (size_t i = 0; i < oc; i++) if (old[i].state) { size_t j = chk_slot (s, old[i].p); s->tab[j] = old[i]; s->n_used++; }
  free (old);
}
static inline void chk_enter (chk_state *s, void *p, size_t size) {
  chk_grow (s);
  size_t i = chk_slot (s, p);
  if (s->tab[i].state == 0) s->n_used++;
  s->tab[i].p = p; s->tab[i].size = size; s->tab[i].state = 1;
#ifdef CHK_BT
  s->tab[i].nbt = backtrace (s->tab[i].bt, 10);
#endif
  s->live_blocks++; s->live_bytes += size; if (s->live_bytes > s->peak_bytes) s->peak_bytes = s->live_bytes;
}
static inline void *chk_malloc (size_t size, void *ud) {
  chk_state *s = ud; void *p = malloc (size ? size : 1);
  if (!p) return NULL;
  memset (p, 0xA5, size); /* uninitialised-memory pattern: deterministic */
  s->n_malloc++; chk_enter (s, p, size); return p;
}
static inline void *chk_calloc (size_t n, size_t size, void *ud) {
  chk_state *s = ud; void *p = calloc (n ? n : 1, size ? size : 1);
  if (!p) return NULL;
  s->n_calloc++; chk_enter (s, p, n * size); return p;
}
static inline void chk_flush_quarantine (chk_state *s) { /* verify freed blocks untouched, give them back, rebuild the table */
  chk_ent *old = s->tab; size_t oc = s->cap;
  s->tab = calloc (s->cap, sizeof (chk_ent)); s->n_used = 0;
  for (size_t i = 0; i < oc; i++) {
    chk_ent *e = &old[i];
    if (e->state == 2) {
      CHK_UNPOISON (e->p, e->size);
      for (size_t k = 0; k < e->size; k++) if (((uint8_t *) e->p)[k] != 0xDD) { chk_error ("write-after-free", "freed block %p (size %zu) modified at offset %zu", e->p, e->size, k); break; }
      free (e->p);
    } else if (e->state == 1) { size_t j = chk_slot (s, e->p); s->tab[j] = *e; s->n_used++; }
  }
  free (old); s->quarantine_bytes = 0; s->quarantine_blocks = 0;
}
static inline void chk_release (chk_state *s, size_t i) { /* quarantine */
  chk_ent *e = &s->tab[i];
  memset (e->p, 0xDD, e->size); CHK_POISON (e->p, e->size);
  e->state = 2; s->live_blocks--; s->live_bytes -= e->size; s->quarantine_bytes += e->size; s->quarantine_blocks++;
  if (s->quarantine_bytes > (s->quarantine_limit ? s->quarantine_limit : (64u << 20)) || s->quarantine_blocks > 200000) chk_flush_quarantine (s);
}
static inline void chk_free (void *p, void *ud) {
  chk_state *s = ud;
  if (p == NULL) return;
  if (s->cap == 0) { chk_error ("free-unknown", "free(%p) of a pointer the allocator never returned", p); return; }
  size_t i = chk_slot (s, p);
  if (s->tab[i].state == 0) { chk_error ("free-unknown", "free(%p) of a pointer the allocator never returned", p); return; }
  if (s->tab[i].state == 2) { chk_error ("double-free", "free(%p) of a block already freed (size %zu)", p, s->tab[i].size); return; }
  s->n_free++; chk_release (s, i);
}
static inline void *chk_realloc (void *p, size_t old_size, size_t new_size, void *ud) {
  chk_state *s = ud;
  s->n_realloc++;
  if (p == NULL) { void *n = chk_malloc (new_size, ud); s->n_malloc--; return n; }
  size_t i = s->cap ? chk_slot (s, p) : 0;
  if (s->cap == 0 || s->tab[i].state == 0) { chk_error ("realloc-unknown", "realloc(%p) of unknown pointer", p); return NULL; }
  if (s->tab[i].state == 2) { chk_error ("realloc-freed", "realloc(%p) of freed block", p); return NULL; }
  size_t true_size = s->tab[i].size;
  if (true_size != old_size)
    chk_error ("realloc-old-size", "realloc(%p, old_size=%zu, new_size=%zu) but the block's true size is %zu", p, old_size, new_size, true_size);
  /* always move: stale pointers into the old block become visible */
  void *n = malloc (new_size ? new_size : 1);
  if (!n) return NULL;
  memset (n, 0xA5, new_size);
  memcpy (n, p, true_size < new_size ? true_size : new_size);
  chk_release (s, i);
  chk_enter (s, n, new_size);
  return n;
}
/* verify quarantine untouched, free it, report leaks; returns number of leaked blocks */
static inline size_t chk_reset (chk_state *s, int report_leaks) {
  size_t leaks = 0, leak_bytes = 0;
  for (size_t i = 0; i < s->cap; i++) {
    chk_ent *e = &s->tab[i];
    if (e->state == 2) {
      CHK_UNPOISON (e->p, e->size);
      for (size_t k = 0; k < e->size; k++) if (((uint8_t *) e->p)[k] != 0xDD) { chk_error ("write-after-free", "freed block %p (size %zu) modified at offset %zu", e->p, e->size, k); break; }
      free (e->p);
    } else if (e->state == 1) {
      leaks++; leak_bytes += e->size;
      if (report_leaks && leaks <= 3) chk_error ("leak", "block %p of %zu bytes not released after finish", e->p, e->size);
      free (e->p);
    }
  }
  free (s->tab); s->tab = NULL; s->cap = s->n_used = 0; s->live_blocks = s->live_bytes = s->quarantine_bytes = 0;
  for (size_t i = 0; i < s->n_maps; i++)
    if (s->maps[i].live) { leaks++; if (report_leaks) chk_error ("code-leak", "code region %p+%zu not unmapped after finish", s->maps[i].p, s->maps[i].len); munmap (s->maps[i].p, s->maps[i].len); s->maps[i].live = 0; }
  s->n_maps = 0; s->live_maps = 0;
  return leaks;
}
static inline struct MIR_alloc chk_alloc_make (chk_state *s) {
  struct MIR_alloc a = {chk_malloc, chk_calloc, chk_realloc, chk_free, s}; return a;
}

/* ---- code allocator: pages are PROT_READ|PROT_EXEC unless a write window is open ---- */
static inline void *chk_mem_map (size_t len, void *ud) {
  chk_state *s = ud;
  void *p = mmap (NULL, len, PROT_READ | PROT_EXEC, MAP_PRIVATE | MAP_ANONYMOUS, -1, 0);
  if (p == (void *) -1) return NULL;
  if (s->n_maps >= 256) { chk_error ("infra", "too many code maps"); return NULL; }
  s->maps[s->n_maps].p = p; s->maps[s->n_maps].len = len; s->maps[s->n_maps].writable = 0; s->maps[s->n_maps].live = 1;
  s->n_maps++; s->n_map++; s->live_maps++;
  return p;
}
static inline int chk_mem_unmap (void *p, size_t len, void *ud) {
  chk_state *s = ud;
  for (size_t i = 0; i < s->n_maps; i++)
    if (s->maps[i].live && s->maps[i].p == p) {
      if (s->maps[i].len != len) chk_error ("unmap-size", "mem_unmap(%p,%zu) but region was mapped with %zu", p, len, s->maps[i].len);
      s->maps[i].live = 0; s->n_unmap++; s->live_maps--;
      return munmap (p, s->maps[i].len);
    }
  chk_error ("unmap-unknown", "mem_unmap(%p,%zu) of a region never mapped", p, len);
  return -1;
}
static inline int chk_mem_protect (void *p, size_t len, MIR_mem_protect_t prot, void *ud) {
  chk_state *s = ud;
  s->n_protect++;
  for (size_t i = 0; i < s->n_maps; i++)
    if (s->maps[i].live && (uint8_t *) p >= s->maps[i].p && (uint8_t *) p + len <= s->maps[i].p + s->maps[i].len)
      return mprotect (p, len, prot == PROT_WRITE_EXEC ? PROT_READ | PROT_WRITE | PROT_EXEC : PROT_READ | PROT_EXEC);
  chk_error ("protect-unknown", "mem_protect(%p,%zu) outside every mapped code region", p, len);
  return -1;
}
static inline struct MIR_code_alloc chk_code_alloc_make (chk_state *s) {
  struct MIR_code_alloc a = {chk_mem_map, chk_mem_unmap, chk_mem_protect, s}; return a;
}
#endif
