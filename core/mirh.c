#include "mirh.h"
#include "vp.h"
#include <stdlib.h>
#include <string.h>
#include <stdio.h>
#include <stdarg.h>
#include <math.h>

const char *mh_engine_name[] = {"interp", "gen-O0", "gen-O1", "gen-O2", "gen-O3", "interp-shim", "lazy-gen", "lazy-bb-gen"};

/* ------------------------------------------------------------------ log + memory */
mh_logent mh_log[MH_LOG_MAX]; int mh_log_n; uint64_t mh_seq;
uint8_t mh_buf[2][MH_BUF] __attribute__ ((aligned (16)));
uint8_t mh_gbuf[MH_BUF] __attribute__ ((aligned (16)));
void mh_log_reset (void) { mh_log_n = 0; mh_seq = 0; }
static void logit (int id, int64_t a0, int64_t a1, int64_t a2, int64_t a3) {
  if (mh_log_n < MH_LOG_MAX) { mh_log[mh_log_n].id = id; mh_log[mh_log_n].a[0] = a0; mh_log[mh_log_n].a[1] = a1; mh_log[mh_log_n].a[2] = a2; mh_log[mh_log_n].a[3] = a3; }
  mh_log_n++; mh_seq++;
}
uint64_t mh_log_hash (void) {
  uint64_t h = vp_hash_u64 (3, mh_log_n);
  for (int i = 0; i < mh_log_n && i < MH_LOG_MAX; i++) { h = vp_hash_u64 (h, mh_log[i].id); h = vp_hash_bytes (h, mh_log[i].a, sizeof mh_log[i].a); }
  return h;
}
void mh_log_text (char *buf, size_t n) {
  size_t k = 0; buf[0] = 0;
  for (int i = 0; i < mh_log_n && i < MH_LOG_MAX && k + 100 < n; i++)
    k += snprintf (buf + k, n - k, "%se%d(%lld,%lld,%lld,%lld)", i ? " " : "", mh_log[i].id, (long long) mh_log[i].a[0], (long long) mh_log[i].a[1], (long long) mh_log[i].a[2], (long long) mh_log[i].a[3]);
  if (mh_log_n == 0) snprintf (buf, n, "(no calls)");
}
void mh_mem_reset (void) {
  for (int b = 0; b < 2; b++) for (int i = 0; i < MH_BUF; i++) mh_buf[b][i] = (uint8_t) (0x11 * (b + 1) + i * 7 + (i >> 3) * 0x81);
  for (int i = 0; i < MH_BUF; i++) mh_gbuf[i] = (uint8_t) (0xC0 + i * 5);
}
uint64_t mh_mem_hash (void) { uint64_t h = vp_hash_bytes (5, mh_buf, sizeof mh_buf); return vp_hash_bytes (h, mh_gbuf, sizeof mh_gbuf); }

/* ------------------------------------------------------------------ externals */
static int64_t x_e0 (void) { logit (0, 0, 0, 0, 0); return 1000 + (int64_t) mh_seq; }
static int64_t x_e1 (int64_t a) { logit (1, a, 0, 0, 0); return a * 3 + 1; }
static int64_t x_e2 (int64_t a, int64_t b) { logit (2, a, b, 0, 0); return a - 2 * b + (int64_t) mh_seq; }
static void x_ev (int64_t a) { logit (3, a, 0, 0, 0); }
static double x_ed (double a) { int64_t bits; memcpy (&bits, &a, 8); logit (4, a != a ? -1 : bits, 0, 0, 0); return a * 0.5 + 1.0; }
static float x_ef (float a) { int32_t bits; memcpy (&bits, &a, 4); logit (5, a != a ? -1 : bits, 0, 0, 0); return a + 2.0f; }
static int64_t x_emem (int64_t *p) { logit (6, 0, 0, 0, 0); int64_t old = *p; *p = old + 0x0101010101010101ll; return old; } /* reads and writes through its argument */
static int64_t x_e6 (int64_t a, int64_t b, int64_t c, int64_t d, int64_t e, int64_t f) { logit (7, a, b, c, d); logit (8, e, f, 0, 0); return a ^ (b << 1) ^ (c << 2) ^ (d << 3) ^ (e << 4) ^ (f << 5); }
static double x_edd (double a, double b) { int64_t x, y; memcpy (&x, &a, 8); memcpy (&y, &b, 8); logit (9, a != a ? -1 : x, b != b ? -1 : y, 0, 0); return a - b; }
static int64_t x_eid (int64_t a, double b) { int64_t y; memcpy (&y, &b, 8); logit (10, a, b != b ? -1 : y, 0, 0); return a + 7; }
static int32_t x_e32 (int32_t a) { logit (11, a, 0, 0, 0); return a * 2 - 1; }   /* narrow C types: callee sees truncated values */
static uint8_t x_eu8 (uint8_t a) { logit (12, a, 0, 0, 0); return (uint8_t) (a + 200); }
static int16_t x_e16 (int16_t a) { logit (13, a, 0, 0, 0); return (int16_t) (a - 30000); }
static int64_t x_e10 (int64_t a, int64_t b, int64_t c, int64_t d, int64_t e, int64_t f, int64_t g, int64_t h, int64_t i, int64_t j) {
  logit (14, a, b, c, d); logit (15, e, f, g, h); logit (16, i, j, 0, 0); return a + 2 * b + 3 * c + 4 * d + 5 * e + 6 * f + 7 * g + 8 * h + 9 * i + 10 * j;
}
const ri_ext mh_exts[] = {
  {"e0", (void *) x_e0, 1}, {"e1", (void *) x_e1, 1}, {"e2", (void *) x_e2, 1}, {"ev", (void *) x_ev, 1}, {"ed", (void *) x_ed, 1}, {"ef", (void *) x_ef, 1},
  {"emem", (void *) x_emem, 1}, {"e6", (void *) x_e6, 1}, {"edd", (void *) x_edd, 1}, {"eid", (void *) x_eid, 1}, {"e32", (void *) x_e32, 1}, {"eu8", (void *) x_eu8, 1},
  {"e16", (void *) x_e16, 1}, {"e10", (void *) x_e10, 1}, {"gbuf", (void *) mh_gbuf, 0},
};
const int mh_n_exts = sizeof (mh_exts) / sizeof (mh_exts[0]);

/* ------------------------------------------------------------------ tracking allocator: everything can be dropped after an error */
typedef mh_tblk tblk;
static void *t_malloc (size_t n, void *ud) { mh_ctx *mc = ud; tblk *b = malloc (sizeof (tblk) + n); if (!b) return NULL; b->size = n; b->next = mc->head.next; b->prev = &mc->head; mc->head.next->prev = b; mc->head.next = b; return b + 1; }
static void *t_calloc (size_t a, size_t b, void *ud) { void *p = t_malloc (a * b, ud); if (p) memset (p, 0, a * b); return p; }
static void t_free (void *p, void *ud) { if (!p) return; tblk *b = (tblk *) p - 1; b->prev->next = b->next; b->next->prev = b->prev; free (b); }
static void *t_realloc (void *p, size_t o, size_t n, void *ud) {
  if (!p) return t_malloc (n, ud);
  tblk *b = (tblk *) p - 1, *nb; tblk *pr = b->prev, *nx = b->next;
  nb = realloc (b, sizeof (tblk) + n); if (!nb) return NULL;
  nb->size = n; pr->next = nb; nx->prev = nb; return nb + 1;
}
static void t_free_all (mh_ctx *mc) { while (mc->head.next != &mc->head) { tblk *b = mc->head.next; mc->head.next = b->next; b->next->prev = &mc->head; free (b); } }

/* ------------------------------------------------------------------ pooled code allocator
   MIR lets the user supply the code allocator (CUSTOM-ALLOCATORS.md); the harness maps pages RWX once and
   recycles them, which removes ~90 mprotect/mmap system calls per context.  C17 uses the checking allocator instead. */
#include <sys/mman.h>
#define POOL_MAX 64
static struct { void *p; size_t len; void *used; } pool[POOL_MAX]; static int n_pool;
static void *p_map (size_t len, void *ud) {
  for (int i = 0; i < n_pool; i++) if (!pool[i].used && pool[i].len == len) { pool[i].used = ud; memset (pool[i].p, 0xCC, len); /* stale code must trap */ return pool[i].p; }
  void *p = mmap (NULL, len, PROT_READ | PROT_WRITE | PROT_EXEC, MAP_PRIVATE | MAP_ANONYMOUS, -1, 0);
  if (p == (void *) -1) return NULL;
  if (n_pool < POOL_MAX) { pool[n_pool].p = p; pool[n_pool].len = len; pool[n_pool].used = ud; n_pool++; }
  return p;
}
static int p_unmap (void *p, size_t len, void *ud) {
  for (int i = 0; i < n_pool; i++) if (pool[i].p == p) { pool[i].used = NULL; return 0; }
  return munmap (p, len);
}
static int p_protect (void *p, size_t len, MIR_mem_protect_t prot, void *ud) { return 0; }
static void pool_release_all (void *owner) { for (int i = 0; i < n_pool; i++) if (pool[i].used == owner) pool[i].used = NULL; }

/* ------------------------------------------------------------------ contexts */
jmp_buf mh_err_jb; mh_ctx *mh_cur; static int trap_armed;
void mh_arm (int on) { trap_armed = on; }
static void MIR_NO_RETURN err_func (MIR_error_type_t t, const char *fmt, ...) {
  va_list ap; va_start (ap, fmt);
  if (mh_cur) { mh_cur->err = 1; mh_cur->err_type = t; vsnprintf (mh_cur->errmsg, sizeof mh_cur->errmsg, fmt, ap); }
  va_end (ap);
  if (!trap_armed) { fprintf (stderr, "MIR error outside a trapped region: %s\n", mh_cur ? mh_cur->errmsg : "?"); abort (); }
  longjmp (mh_err_jb, 1);
}
#define TRAP(mc, body) do { mh_cur = (mc); trap_armed = 1; if (setjmp (mh_err_jb) == 0) { body; trap_armed = 0; } else { trap_armed = 0; return -1; } } while (0)

int mh_open (mh_ctx *mc) {
  memset (mc, 0, sizeof *mc);
  mc->head.next = mc->head.prev = &mc->head;
  mc->alloc = (struct MIR_alloc){t_malloc, t_calloc, t_realloc, t_free, mc};
  mc->calloc_ = (struct MIR_code_alloc){p_map, p_unmap, p_protect, mc};
  mc->ctx = MIR_init2 (&mc->alloc, getenv ("VP_DEFAULT_CODE_ALLOC") ? NULL : &mc->calloc_);
  MIR_set_error_func (mc->ctx, err_func);
  return 0;
}
int mh_scan (mh_ctx *mc, const char *text) { TRAP (mc, MIR_scan_string (mc->ctx, text)); return 0; }
int mh_link (mh_ctx *mc, mh_engine e) {
  mc->engine = e;
  TRAP (mc, {
    for (MIR_module_t m = DLIST_HEAD (MIR_module_t, *MIR_get_module_list (mc->ctx)); m != NULL; m = DLIST_NEXT (MIR_module_t, m)) MIR_load_module (mc->ctx, m);
    for (int i = 0; i < mh_n_exts; i++) MIR_load_external (mc->ctx, mh_exts[i].name, mh_exts[i].addr);
    if (e == E_INTERP || e == E_ISHIM) MIR_link (mc->ctx, MIR_set_interp_interface, NULL);
    else {
      MIR_gen_init (mc->ctx); mc->gen_inited = 1;
      MIR_gen_set_optimize_level (mc->ctx, e >= E_GEN0 && e <= E_GEN3 ? (unsigned) (e - E_GEN0) : 2);
      MIR_link (mc->ctx, e == E_LAZY ? MIR_set_lazy_gen_interface : e == E_LAZYBB ? MIR_set_lazy_bb_gen_interface : MIR_set_gen_interface, NULL);
    }
  });
  return 0;
}
MIR_item_t mh_find_func (mh_ctx *mc, const char *name) {
  MIR_item_t found = NULL;
  for (MIR_module_t m = DLIST_HEAD (MIR_module_t, *MIR_get_module_list (mc->ctx)); m != NULL; m = DLIST_NEXT (MIR_module_t, m))
    for (MIR_item_t it = DLIST_HEAD (MIR_item_t, m->items); it != NULL; it = DLIST_NEXT (MIR_item_t, it))
      if (it->item_type == MIR_func_item && strcmp (it->u.func->name, name) == 0) found = it;
  return found;
}
void mh_close (mh_ctx *mc) {
  if (!mc->ctx) return;
  if (!mc->err) {
    mh_cur = mc; trap_armed = 1;
    if (setjmp (mh_err_jb) == 0) { if (mc->gen_inited) MIR_gen_finish (mc->ctx); MIR_finish (mc->ctx); }
    trap_armed = 0;
  }
  /* after an error the context is abandoned; its heap blocks are dropped wholesale (code pages, if any, leak) */
  t_free_all (mc); pool_release_all (mc);
  mc->ctx = NULL; mh_cur = NULL;
}

/* ------------------------------------------------------------------ calls */
typedef struct { int64_t a, b; } r_ii; typedef struct { double a, b; } r_dd; typedef struct { int64_t a; double b; } r_id; typedef struct { double a; int64_t b; } r_di;
#define PARAMS int64_t, int64_t, int64_t, int64_t, int64_t, int64_t, double, double, double, double, double, double, double, double
#define ACTUALS ia[0], ia[1], ia[2], ia[3], ia[4], ia[5], da[0], da[1], da[2], da[3], da[4], da[5], da[6], da[7]
static int tclass (MIR_type_t t) { return t == MIR_T_F ? 'f' : t == MIR_T_D ? 'd' : t == MIR_T_LD ? 'l' : 'i'; }

int mh_call (mh_ctx *mc, MIR_item_t f, const mh_args *a, MIR_val_t *res) {
  MIR_func_t fn = f->u.func;
  if (mc->engine == E_INTERP) {
    MIR_val_t v[16]; int ii = 0, di = 0;
    for (uint32_t k = 0; k < fn->nargs; k++) {
      MIR_type_t t = VARR_GET (MIR_var_t, fn->vars, k).type; memset (&v[k], 0, sizeof v[k]);
      if (t == MIR_T_F) v[k].f = (float) a->d[di++]; else if (t == MIR_T_D) v[k].d = a->d[di++]; else if (t == MIR_T_LD) v[k].ld = a->d[di++]; else v[k].i = a->i[ii++];
    }
    TRAP (mc, MIR_interp_arr (mc->ctx, f, res, fn->nargs, v));
    return 0;
  }
  int64_t ia[6] = {0}; double da[8] = {0}; int ii = 0, di = 0, ni = 0, nd = 0;
  for (uint32_t k = 0; k < fn->nargs; k++) {
    MIR_type_t t = VARR_GET (MIR_var_t, fn->vars, k).type;
    if (t == MIR_T_F) { float x = (float) a->d[di++]; double d = 0; memcpy (&d, &x, 4); da[nd++] = d; }
    else if (t == MIR_T_D) da[nd++] = a->d[di++];
    else if (t == MIR_T_LD) return -2;
    else ia[ni++] = a->i[ii++];
  }
  void *addr = f->addr;
  int c0 = fn->nres > 0 ? tclass (fn->res_types[0]) : 0, c1 = fn->nres > 1 ? tclass (fn->res_types[1]) : 0;
  mh_cur = mc; trap_armed = 1;
  if (setjmp (mh_err_jb) != 0) { trap_armed = 0; return -1; }
  if (fn->nres == 0) ((void (*) (PARAMS)) addr) (ACTUALS);
  else if (fn->nres == 1) {
    if (c0 == 'i') res[0].i = ((int64_t (*) (PARAMS)) addr) (ACTUALS);
    else if (c0 == 'd') res[0].d = ((double (*) (PARAMS)) addr) (ACTUALS);
    else if (c0 == 'f') res[0].f = ((float (*) (PARAMS)) addr) (ACTUALS);
    else res[0].ld = ((long double (*) (PARAMS)) addr) (ACTUALS);
  } else if (fn->nres == 2) {
    if (c0 == 'i' && c1 == 'i') { r_ii r = ((r_ii (*) (PARAMS)) addr) (ACTUALS); res[0].i = r.a; res[1].i = r.b; }
    else if (c0 == 'd' && c1 == 'd') { r_dd r = ((r_dd (*) (PARAMS)) addr) (ACTUALS); res[0].d = r.a; res[1].d = r.b; }
    else if (c0 == 'i' && c1 == 'd') { r_id r = ((r_id (*) (PARAMS)) addr) (ACTUALS); res[0].i = r.a; res[1].d = r.b; }
    else if (c0 == 'd' && c1 == 'i') { r_di r = ((r_di (*) (PARAMS)) addr) (ACTUALS); res[0].d = r.a; res[1].i = r.b; }
    else { trap_armed = 0; return -2; }
  } else { trap_armed = 0; return -2; }
  trap_armed = 0;
  return 0;
}
int mh_ref_call (ri_ctx *ri, MIR_item_t f, const mh_args *a, ri_val *res) {
  MIR_func_t fn = f->u.func; ri_val v[16]; int ii = 0, di = 0;
  for (uint32_t k = 0; k < fn->nargs && k < 16; k++) {
    MIR_type_t t = VARR_GET (MIR_var_t, fn->vars, k).type; memset (&v[k], 0, sizeof v[k]);
    if (t == MIR_T_F) v[k].u.f = (float) a->d[di++]; else if (t == MIR_T_D) v[k].u.d = a->d[di++]; else if (t == MIR_T_LD) v[k].u.ld = a->d[di++]; else v[k].u.i = a->i[ii++];
  }
  return ri_call (ri, f, v, (int) fn->nargs, res);
}
MIR_val_t mh_from_ri (MIR_type_t t, ri_val v) {
  MIR_val_t r; memset (&r, 0, sizeof r);
  if (t == MIR_T_F) r.f = v.u.f; else if (t == MIR_T_D) r.d = v.u.d; else if (t == MIR_T_LD) r.ld = v.u.ld; else r.i = v.u.i;
  return r;
}
int mh_val_eq (MIR_type_t t, MIR_val_t a, MIR_val_t b, int low32) {
  switch (t) {
  case MIR_T_F: return (a.f != a.f && b.f != b.f) || memcmp (&a.f, &b.f, 4) == 0;
  case MIR_T_D: return (a.d != a.d && b.d != b.d) || memcmp (&a.d, &b.d, 8) == 0;
  case MIR_T_LD: return (a.ld != a.ld && b.ld != b.ld) || memcmp (&a.ld, &b.ld, 10) == 0;
  default: return low32 ? (uint32_t) a.i == (uint32_t) b.i : a.i == b.i;
  }
}
void mh_val_text (MIR_type_t t, MIR_val_t v, char *buf, size_t n) {
  switch (t) {
  case MIR_T_F: { uint32_t b; memcpy (&b, &v.f, 4); snprintf (buf, n, "%a(%#x)", v.f, b); break; }
  case MIR_T_D: { uint64_t b; memcpy (&b, &v.d, 8); snprintf (buf, n, "%a(%#llx)", v.d, (unsigned long long) b); break; }
  case MIR_T_LD: snprintf (buf, n, "%La", v.ld); break;
  default: snprintf (buf, n, "%#llx", (unsigned long long) v.i);
  }
}
