/* vp.h - tiny driver framework shared by all C check drivers (DESIGN.md §2.2).
   A driver defines an indexable, finite case space; vp_main enumerates the part of it that belongs
   to this shard, runs every case against the real code and reports failures, counters, samples and
   the set of distinct observed outcomes.  Crash / hang containment lives in core/runner.py: the
   index of the running case sits in a shared status page, so a dead shard is attributed, replayed
   twice in a fresh process and restarted behind the offending case.  */
#ifndef VP_H
#define VP_H
#include <stdint.h>
#include <stddef.h>
#include <stdio.h>

/* ---- provided by the driver ---- */
void drv_init (int thorough);                       /* build tables; decide the size of the space */
uint64_t drv_ncases (void);                         /* number of cases in the enumeration        */
void drv_case (uint64_t idx);                       /* run case idx; call vp_fail on violation   */
void drv_describe (uint64_t idx, char *buf, size_t n); /* canonical one-line descriptor            */

/* ---- provided by vp.c ---- */
extern int vp_verbose;                              /* set by --only / -v: drivers may print detail */
extern int vp_thorough;
void vp_fail (const char *kind, const char *fmt, ...) __attribute__ ((format (printf, 2, 3)));
void vp_count (const char *key, uint64_t n);        /* additive counter, survives a crash of the shard */
void vp_max (const char *key, uint64_t n);
uint64_t vp_get (const char *key);                 /* current value of an additive counter (persists across shard restarts) */          /* max counter */
void vp_outcome (uint64_t h);                       /* distinct-outcome / distinct-state set */
void vp_nontrivial (void);                          /* current case is non-trivial by the driver's rule */
void vp_sample (const char *fmt, ...) __attribute__ ((format (printf, 1, 2))); /* keep first few as evidence samples */
uint64_t vp_hash_bytes (uint64_t h, const void *p, size_t n);
uint64_t vp_hash_u64 (uint64_t h, uint64_t v);
uint64_t vp_hash_str (uint64_t h, const char *s);
int vp_main (int argc, char **argv);

/* mixed-radix helper: decode idx into digits (least significant first); returns 0 if idx out of range */
static inline int vp_decode (uint64_t idx, const uint32_t *radix, int n, uint32_t *digit) {
  for (int i = 0; i < n; i++) { digit[i] = idx % radix[i]; idx /= radix[i]; }
  return idx == 0;
}
static inline uint64_t vp_product (const uint32_t *radix, int n) {
  uint64_t p = 1; for (int i = 0; i < n; i++) p *= radix[i]; return p;
}
#endif
