/* bfs.h - explicit-state breadth-first search over operation histories on a real object (DESIGN.md §2.2).
   A state is the history that reaches it, replayed on a fresh object; states are deduplicated on the
   hash of a driver-supplied canonical serialisation of the *real* representation.  The oracle is
   evaluated inside apply() on every transition.  */
#ifndef BFS_H
#define BFS_H
#include "vp.h"
#include <stdlib.h>
#include <string.h>

#define BFS_MAX_DEPTH 16
typedef struct bfs_model {
  int nops;
  void *(*fresh) (void *cfg);                               /* new world (impl + reference) */
  void (*destroy) (void *w);
  int (*apply) (void *w, int op, int step, int check);      /* 0 = op not enabled in this state; performs oracle checks if check */
  uint64_t (*canon) (void *w);                              /* hash of canonical full representation */
  void (*opname) (int op, char *buf, size_t n);
  void *cfg;
} bfs_model;

typedef struct { uint8_t len; uint16_t op[BFS_MAX_DEPTH]; } bfs_hist;
typedef struct { uint64_t states, transitions, max_depth, replay_divergences; } bfs_result;

static uint64_t *bfs_seen; static size_t bfs_seen_cap, bfs_seen_n;
static int bfs_seen_add (uint64_t h) {
  if (h == 0) h = 1;
  if (bfs_seen_n * 2 >= bfs_seen_cap) {
    size_t nc = bfs_seen_cap ? bfs_seen_cap * 2 : 1 << 14; uint64_t *n = calloc (nc, 8);
    for (size_t i = 0; i < bfs_seen_cap; i++) if (bfs_seen[i]) { size_t j = (bfs_seen[i] >> 7) & (nc - 1); while (n[j]) j = (j + 1) & (nc - 1); n[j] = bfs_seen[i]; }
    free (bfs_seen); bfs_seen = n; bfs_seen_cap = nc;
  }
  size_t j = (h >> 7) & (bfs_seen_cap - 1);
  while (bfs_seen[j]) { if (bfs_seen[j] == h) return 0; j = (j + 1) & (bfs_seen_cap - 1); }
  bfs_seen[j] = h; bfs_seen_n++; return 1;
}
static const bfs_model *bfs_cur_model; static const bfs_hist *bfs_cur_hist; static int bfs_cur_op;
/* text of the history being executed, for failure messages */
static void bfs_history_text (char *buf, size_t n) {
  size_t k = 0; buf[0] = 0;
  if (!bfs_cur_model) return;
  for (int i = 0; i < bfs_cur_hist->len && k + 64 < n; i++) { bfs_cur_model->opname (bfs_cur_hist->op[i], buf + k, n - k); k += strlen (buf + k); buf[k++] = ';'; buf[k] = 0; }
  if (bfs_cur_op >= 0 && k + 64 < n) { bfs_cur_model->opname (bfs_cur_op, buf + k, n - k); }
}
/* explore all histories of length <= depth starting from the fresh world of m (plus optional seed prefix ops) */
static bfs_result bfs_run (const bfs_model *m, int depth, const bfs_hist *seeds, size_t nseeds) {
  bfs_result r = {0, 0, 0, 0};
  free (bfs_seen); bfs_seen = NULL; bfs_seen_cap = bfs_seen_n = 0;
  bfs_hist *front = malloc (sizeof (bfs_hist) * (nseeds ? nseeds : 1)), *next; size_t nfront = 0, nnext, capnext;
  bfs_cur_model = m;
  if (nseeds == 0) { bfs_hist e; memset (&e, 0, sizeof e); front[nfront++] = e; }
  for (size_t i = 0; i < nseeds; i++) front[nfront++] = seeds[i];
  for (size_t i = 0; i < nfront; i++) { /* enter seed states */
    void *w = m->fresh (m->cfg); bfs_cur_hist = &front[i]; bfs_cur_op = -1;
    for (int k = 0; k < front[i].len; k++) m->apply (w, front[i].op[k], k, 1);
    if (bfs_seen_add (m->canon (w))) { r.states++; vp_outcome (m->canon (w)); }
    m->destroy (w);
  }
  for (int d = 0; d < depth && nfront; d++) {
    capnext = 1024; nnext = 0; next = malloc (sizeof (bfs_hist) * capnext);
    for (size_t i = 0; i < nfront; i++) {
      const bfs_hist *h = &front[i];
      bfs_cur_hist = h;
      for (int op = 0; op < m->nops; op++) {
        void *w = m->fresh (m->cfg);
        bfs_cur_op = -1;
        for (int k = 0; k < h->len; k++) m->apply (w, h->op[k], k, 0);
        bfs_cur_op = op;
        if (m->apply (w, op, h->len, 1)) {
          r.transitions++;
          uint64_t c = m->canon (w);
          if (bfs_seen_add (c)) {
            r.states++; vp_outcome (c);
            if (h->len + 1 < BFS_MAX_DEPTH) {
              if (nnext == capnext) { capnext *= 2; next = realloc (next, sizeof (bfs_hist) * capnext); }
              next[nnext] = *h; next[nnext].op[h->len] = op; next[nnext].len = h->len + 1; nnext++;
              if ((uint64_t) h->len + 1 > r.max_depth) r.max_depth = h->len + 1;
            }
          }
        }
        m->destroy (w);
      }
    }
    /* replay determinism: re-run the first and last new history and require the same canon twice */
    for (size_t t = 0; t < nnext; t += (nnext > 1 ? nnext - 1 : 1)) {
      uint64_t c[2];
      for (int rep = 0; rep < 2; rep++) {
        void *w = m->fresh (m->cfg); bfs_cur_hist = &next[t]; bfs_cur_op = -1;
        for (int k = 0; k < next[t].len; k++) m->apply (w, next[t].op[k], k, 0);
        c[rep] = m->canon (w); m->destroy (w);
      }
      if (c[0] != c[1]) r.replay_divergences++;
    }
    free (front); front = next; nfront = nnext;
  }
  free (front);
  bfs_cur_model = NULL;
  return r;
}
#endif
