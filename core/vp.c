#define _GNU_SOURCE
#include "vp.h"
#include <stdarg.h>
#include <stdlib.h>
#include <string.h>
#include <signal.h>
#include <time.h>
#include <unistd.h>
#include <fcntl.h>
#include <sys/mman.h>
#include <sys/time.h>
#include <malloc.h>

#define VP_NSTAT 96
struct vp_status { /* shared page, read by runner.py after the process ends (layout mirrored there) */
  uint64_t magic, cur_idx, state /*0 running case,1 between cases,2 done,3 deadline*/, ncases, done_cases, nontrivial, last_done_idx;
  uint64_t nstat;
  struct { char key[40]; uint64_t val; } stat[VP_NSTAT];
};
static struct vp_status local_status, *st = &local_status;
int vp_verbose, vp_thorough;
static FILE *out;
static uint64_t cur_idx; static int cur_failed, cur_nontrivial;
static int nsamples, max_samples = 6;

static uint64_t *oset; static size_t oset_cap, oset_n; /* open addressing, 0 = empty */
#define OSET_MAX (1u << 24)
void vp_outcome (uint64_t h) {
  if (h == 0) h = 1;
  if (oset_cap == 0) { oset_cap = 1 << 12; oset = calloc (oset_cap, 8); }
  if (oset_n * 2 >= oset_cap) {
    if (oset_cap >= OSET_MAX) return; /* saturate: distinct count becomes a lower bound */
    size_t nc = oset_cap * 2; uint64_t *n = calloc (nc, 8);
    for (size_t i = 0; i < oset_cap; i++) if (oset[i]) { size_t j = oset[i] & (nc - 1); while (n[j]) j = (j + 1) & (nc - 1); n[j] = oset[i]; }
    free (oset); oset = n; oset_cap = nc;
  }
  size_t j = (h * 0x9E3779B97F4A7C15ull >> 20) & (oset_cap - 1);
  /* store mixed hash so that clustering is low but keep value reproducible */
  while (oset[j]) { if (oset[j] == h) return; j = (j + 1) & (oset_cap - 1); }
  oset[j] = h; oset_n++;
}
uint64_t vp_hash_bytes (uint64_t h, const void *p, size_t n) {
  const unsigned char *s = p; h ^= 0xcbf29ce484222325ull;
  for (size_t i = 0; i < n; i++) { h ^= s[i]; h *= 0x100000001b3ull; }
  h ^= h >> 29; h *= 0xbf58476d1ce4e5b9ull; h ^= h >> 32;
  return h;
}
uint64_t vp_hash_u64 (uint64_t h, uint64_t v) { return vp_hash_bytes (h, &v, 8); }
uint64_t vp_hash_str (uint64_t h, const char *s) { return vp_hash_bytes (h, s, strlen (s)); }

static uint64_t *stat_slot (const char *key) {
  for (uint64_t i = 0; i < st->nstat; i++) if (strncmp (st->stat[i].key, key, 39) == 0) return &st->stat[i].val;
  if (st->nstat >= VP_NSTAT) { fprintf (stderr, "vp: too many counters\n"); exit (3); }
  strncpy (st->stat[st->nstat].key, key, 39); st->stat[st->nstat].val = 0;
  return &st->stat[st->nstat++].val;
}
void vp_count (const char *key, uint64_t n) { *stat_slot (key) += n; }
void vp_max (const char *key, uint64_t n) { char k[40]; snprintf (k, 40, "max:%s", key); uint64_t *p = stat_slot (k); if (*p < n) *p = n; }
void vp_nontrivial (void) { cur_nontrivial = 1; }
uint64_t vp_get (const char *key) { return *stat_slot (key); } /* counters live in the status page: they survive a restart of the shard */

static void sanitize (char *s) { for (; *s; s++) if (*s == '\t' || *s == '\n' || *s == '\r') *s = ' '; }
void vp_fail (const char *kind, const char *fmt, ...) {
  char desc[2048], msg[4096]; va_list ap;
  drv_describe (cur_idx, desc, sizeof desc); sanitize (desc);
  va_start (ap, fmt); vsnprintf (msg, sizeof msg, fmt, ap); va_end (ap); sanitize (msg);
  fprintf (out, "FAIL\t%llu\t%s\t%s\t%s\n", (unsigned long long) cur_idx, kind, desc, msg); fflush (out);
  cur_failed = 1;
}
void vp_sample (const char *fmt, ...) {
  if (nsamples >= max_samples) return;
  char msg[2048]; va_list ap; va_start (ap, fmt); vsnprintf (msg, sizeof msg, fmt, ap); va_end (ap); sanitize (msg);
  fprintf (out, "SAMPLE\t%s\n", msg); nsamples++;
}
#if defined(__SANITIZE_ADDRESS__)
#include <sanitizer/asan_interface.h>
static volatile int asan_errs;
void __asan_on_error (void) { asan_errs++; } /* with -fsanitize-recover=address + halt_on_error=0 the run continues */
#define ASAN_ERRS asan_errs
#else
#define ASAN_ERRS 0
#endif
static double now (void) { struct timespec ts; clock_gettime (CLOCK_MONOTONIC, &ts); return ts.tv_sec + ts.tv_nsec * 1e-9; }

uint64_t vp_shard = 0, vp_nshards = 1; /* enumeration stride of this process, for drivers that prepare cases in batches */
int vp_main (int argc, char **argv) {
  uint64_t shard = 0, nshards = 1, from = 0, only = UINT64_MAX, limit = UINT64_MAX; double deadline = 0; int case_timeout = 20;
  const char *status_file = NULL, *out_file = NULL, *oset_file = NULL; int describe_only = 0;
  for (int i = 1; i < argc; i++) {
    if (!strcmp (argv[i], "--tier") && i + 1 < argc) vp_thorough = !strcmp (argv[++i], "thorough");
    else if (!strcmp (argv[i], "--shard") && i + 1 < argc) sscanf (argv[++i], "%llu/%llu", (unsigned long long *) &shard, (unsigned long long *) &nshards);
    else if (!strcmp (argv[i], "--from") && i + 1 < argc) from = strtoull (argv[++i], 0, 10);
    else if (!strcmp (argv[i], "--only") && i + 1 < argc) { only = strtoull (argv[++i], 0, 10); }
    else if (!strcmp (argv[i], "--limit") && i + 1 < argc) limit = strtoull (argv[++i], 0, 10);
    else if (!strcmp (argv[i], "--status") && i + 1 < argc) status_file = argv[++i];
    else if (!strcmp (argv[i], "--out") && i + 1 < argc) out_file = argv[++i];
    else if (!strcmp (argv[i], "--outcomes") && i + 1 < argc) oset_file = argv[++i];
    else if (!strcmp (argv[i], "--deadline") && i + 1 < argc) deadline = atof (argv[++i]);
    else if (!strcmp (argv[i], "--case-timeout") && i + 1 < argc) case_timeout = atoi (argv[++i]);
    else if (!strcmp (argv[i], "--describe")) describe_only = 1;
    else if (!strcmp (argv[i], "-v")) vp_verbose = 1;
    else { fprintf (stderr, "vp: unknown arg %s\n", argv[i]); return 3; }
  }
  out = out_file ? fopen (out_file, "a") : stdout;
  if (!out) { perror (out_file); return 3; }
  if (status_file) {
    int fd = open (status_file, O_RDWR | O_CREAT, 0644);
    if (fd < 0 || ftruncate (fd, sizeof (struct vp_status)) < 0) { perror (status_file); return 3; }
    st = mmap (0, sizeof (struct vp_status), PROT_READ | PROT_WRITE, MAP_SHARED, fd, 0);
    if (st == MAP_FAILED) { perror ("mmap"); return 3; }
    close (fd);
  }
  if (from == 0 || st->magic != 0x5650535441545553ull) { memset (st, 0, sizeof *st); st->magic = 0x5650535441545553ull; }
  double t0 = now ();
  mallopt (M_TRIM_THRESHOLD, 512 << 20); mallopt (M_MMAP_THRESHOLD, 64 << 20); mallopt (M_TOP_PAD, 64 << 20);
  drv_init (vp_thorough);
  uint64_t n = drv_ncases (); st->ncases = n;
  if (limit < n) n = limit;
  if (only != UINT64_MAX) {
    char desc[2048];
    if (only >= n) { fprintf (stderr, "vp: --only %llu out of range (%llu cases)\n", (unsigned long long) only, (unsigned long long) n); return 3; }
    drv_describe (only, desc, sizeof desc);
    fprintf (out, "CASE\t%llu\t%s\n", (unsigned long long) only, desc); fflush (out);
    if (describe_only) return 0;
    cur_idx = only; st->cur_idx = only; st->state = 0;
    if (case_timeout) alarm (case_timeout);
    int ae = ASAN_ERRS;
    drv_case (only); alarm (0);
#if defined(__SANITIZE_ADDRESS__)
    if (ASAN_ERRS != ae) vp_fail ("asan", "AddressSanitizer: %s at %p (%d report(s) in this case)", __asan_get_report_description (), __asan_get_report_address (), ASAN_ERRS - ae);
#endif
    fprintf (out, "RESULT\t%s\n", cur_failed ? "FAIL" : "OK"); fflush (out);
    return 0;
  }
  struct itimerval tv = {{0, 0}, {case_timeout, 0}}, off = {{0, 0}, {0, 0}};
  vp_shard = shard; vp_nshards = nshards;
  uint64_t i = shard; if (i < from) i += (from - i + nshards - 1) / nshards * nshards;
  uint64_t k = 0;
  st->state = 1;
  for (; i < n; i += nshards, k++) {
    if (deadline > 0 && (k & 15) == 0 && now () - t0 > deadline) { st->state = 3; break; }
    cur_idx = i; cur_failed = 0; cur_nontrivial = 0; st->cur_idx = i; st->state = 0;
    if (case_timeout) setitimer (ITIMER_REAL, &tv, NULL);
    int ae = ASAN_ERRS;
    drv_case (i);
    if (case_timeout) setitimer (ITIMER_REAL, &off, NULL);
#if defined(__SANITIZE_ADDRESS__)
    if (ASAN_ERRS != ae) vp_fail ("asan", "AddressSanitizer: %s at %p (%d report(s) in this case)", __asan_get_report_description (), __asan_get_report_address (), ASAN_ERRS - ae);
#endif
    st->state = 1; st->done_cases++; st->last_done_idx = i; if (cur_nontrivial) st->nontrivial++;
  }
  if (st->state != 3) st->state = 2;
  if (oset_file && oset_n) {
    FILE *f = fopen (oset_file, "ab");
    if (f) { for (size_t j = 0; j < oset_cap; j++) if (oset[j]) fwrite (&oset[j], 8, 1, f); fclose (f); }
  }
  fprintf (out, "DONE\t%llu\t%llu\t%d\n", (unsigned long long) st->done_cases, (unsigned long long) oset_n, oset_cap >= OSET_MAX && oset_n * 2 >= oset_cap);
  fflush (out);
  return 0;
}

__attribute__ ((weak)) int main (int argc, char **argv) { return vp_main (argc, argv); }
