/* refinterp.c - see refinterp.h.  Written from MIR.md only.  Build with -O0/-O1 -fwrapv. */
#include "refinterp.h"
#include <stdlib.h>
#include <string.h>
#include <stdio.h>
#include <stdarg.h>
#include <math.h>

#define ARENA_SIZE (1u << 18)

const char *ri_status_name (ri_status s) {
  static const char *n[] = {"ok", "unspecified", "unsupported", "fuel", "bad-program"}; return n[s];
}
void ri_init (ri_ctx *ri, MIR_context_t ctx, const ri_ext *exts, int n_exts, uint64_t fuel) {
  memset (ri, 0, sizeof *ri);
  ri->ctx = ctx; ri->exts = exts; ri->n_exts = n_exts; ri->fuel = fuel; ri->max_depth = 48;
  ri->arena_size = ARENA_SIZE; ri->arena = malloc (ARENA_SIZE + 64); ri->shadow = calloc (ARENA_SIZE + 64, 1);
  ri->arena_top = 0;
}
void ri_finish (ri_ctx *ri) { free (ri->arena); free (ri->shadow); ri->arena = ri->shadow = NULL; }

static ri_status stop (ri_ctx *ri, ri_status s, const char *fmt, ...) {
  if (ri->status == RI_OK) { va_list ap; ri->status = s; va_start (ap, fmt); vsnprintf (ri->why, sizeof ri->why, fmt, ap); va_end (ap); }
  return s;
}

/* ---------------- frames ---------------- */
typedef struct frame {
  MIR_func_t func; ri_val *regs; uint8_t *addr_taken; uint32_t nregs; size_t arena_base;
} frame;

static int in_arena (ri_ctx *ri, const void *p, size_t n) {
  return (const uint8_t *) p >= ri->arena && (const uint8_t *) p + n <= ri->arena + ri->arena_size;
}
static uint8_t *arena_alloc (ri_ctx *ri, size_t size, int init) {
  size_t top = (ri->arena_top + 15) & ~(size_t) 15;
  /* make the returned address 16-byte aligned as the ABI requires for alloca */
  size_t mis = ((uintptr_t) (ri->arena + top)) & 15; if (mis) top += 16 - mis;
  if (size > ri->arena_size || top + size > ri->arena_size) { stop (ri, RI_FUEL, "reference stack exhausted"); return NULL; }
  memset (ri->shadow + top, init, size);
  ri->arena_top = top + size;
  return ri->arena + top;
}
static int type_size (MIR_type_t t) {
  switch (t) {
  case MIR_T_I8: case MIR_T_U8: return 1; case MIR_T_I16: case MIR_T_U16: return 2;
  case MIR_T_I32: case MIR_T_U32: case MIR_T_F: return 4;
  case MIR_T_I64: case MIR_T_U64: case MIR_T_P: case MIR_T_D: return 8; case MIR_T_LD: return 16;
  default: return 0;
  }
}
static int int_type_p (MIR_type_t t) { return (t >= MIR_T_I8 && t <= MIR_T_U64) || t == MIR_T_P; }
static int64_t ext_by_type (int64_t v, MIR_type_t t) {
  switch (t) {
  case MIR_T_I8: return (int8_t) v; case MIR_T_U8: return (uint8_t) v;
  case MIR_T_I16: return (int16_t) v; case MIR_T_U16: return (uint16_t) v;
  case MIR_T_I32: return (int32_t) v; case MIR_T_U32: return (uint32_t) v;
  default: return v;
  }
}

/* ---------------- operands ---------------- */
static uint8_t *mem_addr (ri_ctx *ri, frame *fr, const MIR_op_t *op) {
  const MIR_mem_t *m = &op->u.mem; uint64_t a = (uint64_t) m->disp;
  if (m->base != 0) { if (fr->regs[m->base].taint) { stop (ri, RI_UNSPEC, "address from a value with undefined upper half"); return NULL; } a += fr->regs[m->base].u.u; }
  if (m->index != 0) { if (fr->regs[m->index].taint) { stop (ri, RI_UNSPEC, "address from a value with undefined upper half"); return NULL; } a += fr->regs[m->index].u.u * (uint64_t) m->scale; }
  { unsigned al = 1;
    switch (m->type) { case MIR_T_I16: case MIR_T_U16: al = 2; break; case MIR_T_I32: case MIR_T_U32: case MIR_T_F: al = 4; break;
    case MIR_T_I64: case MIR_T_U64: case MIR_T_P: case MIR_T_D: al = 8; break; case MIR_T_LD: al = 16; break; default: break; }
    if (a % al != 0) ri->misaligned++; }
  return (uint8_t *) (uintptr_t) a;
}
static int check_read (ri_ctx *ri, const uint8_t *p, size_t n) {
  if (in_arena (ri, p, n)) { size_t o = p - ri->arena; for (size_t i = 0; i < n; i++) if (!ri->shadow[o + i]) { stop (ri, RI_UNSPEC, "read of uninitialised stack memory"); return 0; } }
  return 1;
}
static void mark_written (ri_ctx *ri, const uint8_t *p, size_t n) { if (in_arena (ri, p, n)) memset (ri->shadow + (p - ri->arena), 1, n); }

/* kind: 'i' integer, 'f','d','l' */
static ri_val get_op (ri_ctx *ri, frame *fr, const MIR_op_t *op, char kind) {
  ri_val v; memset (&v, 0, sizeof v);
  switch (op->mode) {
  case MIR_OP_REG: v = fr->regs[op->u.reg]; break;
  case MIR_OP_INT: case MIR_OP_UINT: v.u.i = op->u.i; break;
  case MIR_OP_FLOAT: v.u.f = op->u.f; break;
  case MIR_OP_DOUBLE: v.u.d = op->u.d; break;
  case MIR_OP_LDOUBLE: v.u.ld = op->u.ld; break;
  case MIR_OP_STR: v.u.u = (uint64_t) (uintptr_t) op->u.str.s; break;
  case MIR_OP_LABEL: v.u.u = (uint64_t) (uintptr_t) op->u.label; break;
  case MIR_OP_REF: {
    MIR_item_t it = op->u.ref;
    if (it->item_type == MIR_func_item || it->item_type == MIR_proto_item) { v.u.u = (uint64_t) (uintptr_t) it; break; }
    if (it->item_type == MIR_import_item || it->item_type == MIR_forward_item || it->item_type == MIR_export_item) {
      const char *name = it->item_type == MIR_import_item ? it->u.import_id : it->item_type == MIR_forward_item ? it->u.forward_id : it->u.export_id;
      for (int i = 0; i < ri->n_exts; i++) if (strcmp (ri->exts[i].name, name) == 0) { v.u.u = (uint64_t) (uintptr_t) ri->exts[i].addr; return v; }
      /* a MIR function of this name in some module of the context */
      for (MIR_module_t m = DLIST_HEAD (MIR_module_t, *MIR_get_module_list (ri->ctx)); m != NULL; m = DLIST_NEXT (MIR_module_t, m))
        for (MIR_item_t i2 = DLIST_HEAD (MIR_item_t, m->items); i2 != NULL; i2 = DLIST_NEXT (MIR_item_t, i2))
          if (i2->item_type == MIR_func_item && strcmp (i2->u.func->name, name) == 0) { v.u.u = (uint64_t) (uintptr_t) i2; return v; }
      stop (ri, RI_UNSUPPORTED, "reference to unresolved name %s", name); break;
    }
    stop (ri, RI_UNSUPPORTED, "address of a data item before loading"); break;
  }
  case MIR_OP_MEM: {
    uint8_t *p = mem_addr (ri, fr, op); MIR_type_t t = op->u.mem.type; if (ri->status) break;
    int n = type_size (t); if (!n) { stop (ri, RI_UNSUPPORTED, "memory operand type %d", t); break; }
    if (!check_read (ri, p, t == MIR_T_LD ? 10 : n)) break;
    switch (t) {
    case MIR_T_I8: v.u.i = *(int8_t *) p; break; case MIR_T_U8: v.u.i = *(uint8_t *) p; break;
    case MIR_T_I16: { int16_t x; memcpy (&x, p, 2); v.u.i = x; break; } case MIR_T_U16: { uint16_t x; memcpy (&x, p, 2); v.u.i = x; break; }
    case MIR_T_I32: { int32_t x; memcpy (&x, p, 4); v.u.i = x; break; } case MIR_T_U32: { uint32_t x; memcpy (&x, p, 4); v.u.i = x; break; }
    case MIR_T_I64: case MIR_T_U64: case MIR_T_P: memcpy (&v.u.i, p, 8); break;
    case MIR_T_F: memcpy (&v.u.f, p, 4); break; case MIR_T_D: memcpy (&v.u.d, p, 8); break;
    case MIR_T_LD: memcpy (&v.u.ld, p, 10); break;
    default: break;
    }
    break;
  }
  default: stop (ri, RI_UNSUPPORTED, "operand mode %d", op->mode);
  }
  (void) kind;
  return v;
}
static void set_op (ri_ctx *ri, frame *fr, const MIR_op_t *op, ri_val v, char kind) {
  if (ri->status) return;
  if (op->mode == MIR_OP_REG) {
    if (fr->addr_taken[op->u.reg] && v.taint) { stop (ri, RI_UNSPEC, "32-bit result into an address-taken variable"); return; }
    if (kind == 'i') { fr->regs[op->u.reg].u.i = v.u.i; fr->regs[op->u.reg].taint = v.taint; }
    else { fr->regs[op->u.reg] = v; fr->regs[op->u.reg].taint = 0; }
    return;
  }
  if (op->mode != MIR_OP_MEM) { stop (ri, RI_BAD, "output operand mode %d", op->mode); return; }
  uint8_t *p = mem_addr (ri, fr, op); MIR_type_t t = op->u.mem.type; if (ri->status) return;
  int n = type_size (t); if (!n) { stop (ri, RI_UNSUPPORTED, "memory operand type %d", t); return; }
  if (kind == 'i' && v.taint && n > 4) { stop (ri, RI_UNSPEC, "64-bit store of a value with undefined upper half"); return; }
  switch (t) {
  case MIR_T_I8: case MIR_T_U8: *p = (uint8_t) v.u.u; break;
  case MIR_T_I16: case MIR_T_U16: { uint16_t x = (uint16_t) v.u.u; memcpy (p, &x, 2); break; }
  case MIR_T_I32: case MIR_T_U32: { uint32_t x = (uint32_t) v.u.u; memcpy (p, &x, 4); break; }
  case MIR_T_I64: case MIR_T_U64: case MIR_T_P: memcpy (p, &v.u.u, 8); break;
  case MIR_T_F: memcpy (p, &v.u.f, 4); break; case MIR_T_D: memcpy (p, &v.u.d, 8); break;
  case MIR_T_LD: memcpy (p, &v.u.ld, 10); n = 10; break;
  default: break;
  }
  mark_written (ri, p, n);
}
static ri_val full (ri_ctx *ri, ri_val v, const char *what) { /* require all 64 bits defined */
  if (v.taint) stop (ri, RI_UNSPEC, "%s uses a value with undefined upper half", what);
  return v;
}

/* ---------------- calling C ---------------- */
typedef int64_t (*cfn_i) (int64_t, int64_t, int64_t, int64_t, int64_t, int64_t, double, double, double, double, double, double, double, double, int64_t, int64_t, int64_t, int64_t);
typedef double (*cfn_d) (int64_t, int64_t, int64_t, int64_t, int64_t, int64_t, double, double, double, double, double, double, double, double, int64_t, int64_t, int64_t, int64_t);
typedef float (*cfn_f) (int64_t, int64_t, int64_t, int64_t, int64_t, int64_t, double, double, double, double, double, double, double, double, int64_t, int64_t, int64_t, int64_t);
typedef long double (*cfn_l) (int64_t, int64_t, int64_t, int64_t, int64_t, int64_t, double, double, double, double, double, double, double, double, int64_t, int64_t, int64_t, int64_t);

static MIR_item_t known_func_item (ri_ctx *ri, uint64_t addr) {
  for (MIR_module_t m = DLIST_HEAD (MIR_module_t, *MIR_get_module_list (ri->ctx)); m != NULL; m = DLIST_NEXT (MIR_module_t, m))
    for (MIR_item_t it = DLIST_HEAD (MIR_item_t, m->items); it != NULL; it = DLIST_NEXT (MIR_item_t, it))
      if ((uint64_t) (uintptr_t) it == addr && it->item_type == MIR_func_item) return it;
  return NULL;
}

static void do_call (ri_ctx *ri, frame *fr, MIR_insn_t insn) {
  MIR_proto_t proto = insn->ops[0].u.ref->u.proto;
  ri_val callee = full (ri, get_op (ri, fr, &insn->ops[1], 'i'), "call"); if (ri->status) return;
  size_t nres = proto->nres, nargs = insn->nops - 2 - nres, nproto = proto->args ? VARR_LENGTH (MIR_var_t, proto->args) : 0;
  if (proto->vararg_p || nargs != nproto) { stop (ri, RI_UNSUPPORTED, "variadic call"); return; }
  ri_val args[32], res[8]; size_t saved_top = ri->arena_top;
  if (nargs > 32 || nres > 8) { stop (ri, RI_UNSUPPORTED, "too many args"); return; }
  MIR_item_t target = known_func_item (ri, callee.u.u);
  for (size_t i = 0; i < nargs; i++) {
    const MIR_op_t *op = &insn->ops[2 + nres + i]; MIR_var_t pv = VARR_GET (MIR_var_t, proto->args, i);
    if (MIR_all_blk_type_p (pv.type)) {
      if (op->mode != MIR_OP_MEM) { stop (ri, RI_BAD, "block argument is not a memory operand"); return; }
      ri_val b; memset (&b, 0, sizeof b); if (op->u.mem.base) b = full (ri, fr->regs[op->u.mem.base], "block address");
      if (op->u.mem.index) { stop (ri, RI_UNSUPPORTED, "indexed block argument"); return; }
      if (ri->status) return;
      if (pv.type == MIR_T_RBLK) args[i] = b; /* passed by address */
      else { /* passed by value: the callee sees a private copy */
        size_t sz = pv.size; uint8_t *cp = arena_alloc (ri, sz ? sz : 1, 1); if (!cp) return;
        memcpy (cp, (void *) (uintptr_t) b.u.u, sz);
        /* copying uninitialised bytes is harmless; the copy inherits which bytes are initialised */
        if (in_arena (ri, (uint8_t *) (uintptr_t) b.u.u, sz)) memcpy (ri->shadow + (cp - ri->arena), ri->shadow + ((uint8_t *) (uintptr_t) b.u.u - ri->arena), sz);
        memset (&args[i], 0, sizeof args[i]); args[i].u.u = (uint64_t) (uintptr_t) cp;
      }
      continue;
    }
    char k = pv.type == MIR_T_F ? 'f' : pv.type == MIR_T_D ? 'd' : pv.type == MIR_T_LD ? 'l' : 'i';
    args[i] = get_op (ri, fr, op, k); if (ri->status) return;
    if (k == 'i') { /* integer arguments are truncated according to the prototype argument type */
      if (args[i].taint && type_size (pv.type) > 4) { stop (ri, RI_UNSPEC, "64-bit argument with undefined upper half"); return; }
      args[i].u.i = ext_by_type (args[i].u.i, pv.type); args[i].taint = 0;
    }
  }
  if (target != NULL) {
    MIR_func_t cf = target->u.func;
    if (cf->nres != nres || cf->nargs != nargs || cf->vararg_p) { stop (ri, RI_BAD, "prototype does not match callee %s", cf->name); return; }
    if (ri_call (ri, target, args, (int) nargs, res) != RI_OK) return;
  } else { /* native function: must be one of the registered externals */
    int found = 0; for (int i = 0; i < ri->n_exts; i++) if ((uint64_t) (uintptr_t) ri->exts[i].addr == callee.u.u && ri->exts[i].is_func) found = 1;
    if (!found) { stop (ri, RI_UNSUPPORTED, "call of unknown address"); return; }
    int64_t ia[10] = {0}; double da[8] = {0}; int ni = 0, nd = 0; /* integers beyond the sixth go to the stack in order (all doubles stay in registers) */
    for (size_t i = 0; i < nargs; i++) {
      MIR_var_t pv = VARR_GET (MIR_var_t, proto->args, i);
      if (pv.type == MIR_T_LD || (MIR_blk_type_p (pv.type))) { stop (ri, RI_UNSUPPORTED, "native call with ld/block argument"); return; }
      if (pv.type == MIR_T_F) { if (nd >= 8) goto toomany; double d = 0; memcpy (&d, &args[i].u.f, 4); da[nd++] = d; }
      else if (pv.type == MIR_T_D) { if (nd >= 8) goto toomany; da[nd++] = args[i].u.d; }
      else { if (ni >= 10) goto toomany; ia[ni++] = args[i].u.i; }
    }
    if (nres > 1) { stop (ri, RI_UNSUPPORTED, "native call with several results"); return; }
    void *fn = (void *) (uintptr_t) callee.u.u; memset (res, 0, sizeof res);
    MIR_type_t rt = nres ? proto->res_types[0] : MIR_T_I64;
    if (rt == MIR_T_D) res[0].u.d = ((cfn_d) fn) (ia[0], ia[1], ia[2], ia[3], ia[4], ia[5], da[0], da[1], da[2], da[3], da[4], da[5], da[6], da[7], ia[6], ia[7], ia[8], ia[9]);
    else if (rt == MIR_T_F) res[0].u.f = ((cfn_f) fn) (ia[0], ia[1], ia[2], ia[3], ia[4], ia[5], da[0], da[1], da[2], da[3], da[4], da[5], da[6], da[7], ia[6], ia[7], ia[8], ia[9]);
    else if (rt == MIR_T_LD) res[0].u.ld = ((cfn_l) fn) (ia[0], ia[1], ia[2], ia[3], ia[4], ia[5], da[0], da[1], da[2], da[3], da[4], da[5], da[6], da[7], ia[6], ia[7], ia[8], ia[9]);
    else res[0].u.i = ((cfn_i) fn) (ia[0], ia[1], ia[2], ia[3], ia[4], ia[5], da[0], da[1], da[2], da[3], da[4], da[5], da[6], da[7], ia[6], ia[7], ia[8], ia[9]);
    if (0) { toomany: stop (ri, RI_UNSUPPORTED, "native call with stack arguments"); return; }
  }
  ri->arena_top = saved_top; /* block copies die with the call */
  for (size_t i = 0; i < nres; i++) {
    MIR_type_t rt = proto->res_types[i]; char k = rt == MIR_T_F ? 'f' : rt == MIR_T_D ? 'd' : rt == MIR_T_LD ? 'l' : 'i';
    if (k == 'i') { res[i].u.i = ext_by_type (res[i].u.i, rt); res[i].taint = 0; }
    set_op (ri, fr, &insn->ops[2 + i], res[i], k);
  }
  ri->ovf_valid = 0;
}

/* ---------------- instruction semantics ---------------- */
static int fp_unordered_l (long double a, long double b) { return a != a || b != b; }

#define I64(x) ((int64_t) (x))
#define U64(x) ((uint64_t) (x))
#define I32(x) ((int32_t) (uint32_t) (x))
#define U32(x) ((uint32_t) (x))

static MIR_insn_t find_label (frame *fr, uint64_t addr) {
  for (MIR_insn_t i = DLIST_HEAD (MIR_insn_t, fr->func->insns); i != NULL; i = DLIST_NEXT (MIR_insn_t, i))
    if (i->code == MIR_LABEL && (uint64_t) (uintptr_t) i == addr) return i;
  return NULL;
}

/* returns 1 if the int compare "code family" holds */
static int icmp (int fam, int64_t a, int64_t b, int u, int s32) {
  if (s32) { if (u) { a = U32 (a); b = U32 (b); } else { a = I32 (a); b = I32 (b); } }
  if (u && !s32) { uint64_t x = a, y = b; switch (fam) { case 0: return x == y; case 1: return x != y; case 2: return x < y; case 3: return x <= y; case 4: return x > y; default: return x >= y; } }
  switch (fam) { case 0: return a == b; case 1: return a != b; case 2: return a < b; case 3: return a <= b; case 4: return a > b; default: return a >= b; }
}
static int fcmp (int fam, long double a, long double b) { /* C-like comparison: every ordered predicate is false on NaN, != is true */
  if (fp_unordered_l (a, b)) return fam == 1;
  switch (fam) { case 0: return a == b; case 1: return a != b; case 2: return a < b; case 3: return a <= b; case 4: return a > b; default: return a >= b; }
}

ri_status ri_call (ri_ctx *ri, MIR_item_t func_item, const ri_val *args, int nargs, ri_val *results) {
  if (ri->status) return ri->status;
  if (func_item->item_type != MIR_func_item) return stop (ri, RI_BAD, "not a function");
  MIR_func_t f = func_item->u.func; frame fr;
  if (f->vararg_p) return stop (ri, RI_UNSUPPORTED, "variadic function");
  if ((int) f->nargs != nargs) return stop (ri, RI_BAD, "argument count");
  if (++ri->depth > ri->max_depth) { ri->depth--; return stop (ri, RI_FUEL, "recursion depth"); }
  size_t nvars = VARR_LENGTH (MIR_var_t, f->vars);
  for (size_t i = 0; i < VARR_LENGTH (MIR_var_t, f->vars); i++) { MIR_reg_t r = MIR_reg (ri->ctx, VARR_GET (MIR_var_t, f->vars, i).name, f); if (r > nvars) nvars = r; }
  for (MIR_insn_t in = DLIST_HEAD (MIR_insn_t, f->insns); in != NULL; in = DLIST_NEXT (MIR_insn_t, in))
    for (unsigned k = 0; k < in->nops; k++) {
      if (in->ops[k].mode == MIR_OP_REG && in->ops[k].u.reg > nvars) nvars = in->ops[k].u.reg;
      if (in->ops[k].mode == MIR_OP_MEM) { if (in->ops[k].u.mem.base > nvars) nvars = in->ops[k].u.mem.base; if (in->ops[k].u.mem.index > nvars) nvars = in->ops[k].u.mem.index; }
    }
  /* variables tied to hard registers are ordinary registers here; their initial value (whatever the hard register holds) reads as 0, so a program is only
     comparable if it does not let that value reach a result (the families save and restore it) */
  fr.func = f; fr.nregs = (uint32_t) nvars + 1; fr.regs = calloc (fr.nregs + 1, sizeof (ri_val)); fr.addr_taken = calloc (fr.nregs + 1, 1); fr.arena_base = ri->arena_top;
  /* registers are numbered 1..nvars in declaration order (arguments first) */
  for (int i = 0; i < nargs; i++) {
    MIR_var_t v = VARR_GET (MIR_var_t, f->vars, i); MIR_reg_t r = MIR_reg (ri->ctx, v.name, f);
    if (r == 0 || r > nvars) { stop (ri, RI_BAD, "register numbering"); goto done; }
    fr.regs[r] = args[i];
    if (int_type_p (v.type)) { fr.regs[r].u.i = ext_by_type (args[i].u.i, v.type); fr.regs[r].taint = 0; }
  }
  MIR_insn_t insn = DLIST_HEAD (MIR_insn_t, f->insns);
  while (insn != NULL && ri->status == RI_OK) {
    MIR_insn_t next = DLIST_NEXT (MIR_insn_t, insn); MIR_insn_code_t c = insn->code; MIR_op_t *o = insn->ops;
    ri_val a, b, r; memset (&r, 0, sizeof r);
    if (ri->fuel-- == 0) { stop (ri, RI_FUEL, "instruction budget"); break; }
    ri->steps++;
    int keep_ovf = 0;
    switch (c) {
    case MIR_LABEL: break;
    case MIR_MOV: a = get_op (ri, &fr, &o[1], 'i'); set_op (ri, &fr, &o[0], a, 'i'); keep_ovf = o[1].mode == MIR_OP_REG; /* flag survives stores and reg moves */ break;
    case MIR_FMOV: a = get_op (ri, &fr, &o[1], 'f'); set_op (ri, &fr, &o[0], a, 'f'); break;
    case MIR_DMOV: a = get_op (ri, &fr, &o[1], 'd'); set_op (ri, &fr, &o[0], a, 'd'); break;
    case MIR_LDMOV: a = get_op (ri, &fr, &o[1], 'l'); set_op (ri, &fr, &o[0], a, 'l'); break;
    case MIR_EXT8: a = get_op (ri, &fr, &o[1], 'i'); r.u.i = (int8_t) a.u.i; set_op (ri, &fr, &o[0], r, 'i'); break;
    case MIR_EXT16: a = get_op (ri, &fr, &o[1], 'i'); r.u.i = (int16_t) a.u.i; set_op (ri, &fr, &o[0], r, 'i'); break;
    case MIR_EXT32: a = get_op (ri, &fr, &o[1], 'i'); r.u.i = (int32_t) a.u.i; set_op (ri, &fr, &o[0], r, 'i'); break;
    case MIR_UEXT8: a = get_op (ri, &fr, &o[1], 'i'); r.u.i = (uint8_t) a.u.i; set_op (ri, &fr, &o[0], r, 'i'); break;
    case MIR_UEXT16: a = get_op (ri, &fr, &o[1], 'i'); r.u.i = (uint16_t) a.u.i; set_op (ri, &fr, &o[0], r, 'i'); break;
    case MIR_UEXT32: a = get_op (ri, &fr, &o[1], 'i'); r.u.i = (uint32_t) a.u.i; set_op (ri, &fr, &o[0], r, 'i'); break;
    case MIR_I2F: a = full (ri, get_op (ri, &fr, &o[1], 'i'), "i2f"); r.u.f = (float) a.u.i; set_op (ri, &fr, &o[0], r, 'f'); break;
    case MIR_I2D: a = full (ri, get_op (ri, &fr, &o[1], 'i'), "i2d"); r.u.d = (double) a.u.i; set_op (ri, &fr, &o[0], r, 'd'); break;
    case MIR_I2LD: a = full (ri, get_op (ri, &fr, &o[1], 'i'), "i2ld"); r.u.ld = (long double) a.u.i; set_op (ri, &fr, &o[0], r, 'l'); break;
    case MIR_UI2F: a = full (ri, get_op (ri, &fr, &o[1], 'i'), "ui2f"); r.u.f = (float) a.u.u; set_op (ri, &fr, &o[0], r, 'f'); break;
    case MIR_UI2D: a = full (ri, get_op (ri, &fr, &o[1], 'i'), "ui2d"); r.u.d = (double) a.u.u; set_op (ri, &fr, &o[0], r, 'd'); break;
    case MIR_UI2LD: a = full (ri, get_op (ri, &fr, &o[1], 'i'), "ui2ld"); r.u.ld = (long double) a.u.u; set_op (ri, &fr, &o[0], r, 'l'); break;
    case MIR_F2I: case MIR_D2I: case MIR_LD2I: {
      long double x; a = get_op (ri, &fr, &o[1], c == MIR_F2I ? 'f' : c == MIR_D2I ? 'd' : 'l');
      x = c == MIR_F2I ? (long double) a.u.f : c == MIR_D2I ? (long double) a.u.d : a.u.ld;
      if (x != x || !(x > -9223372036854775809.0L && x < 9223372036854775808.0L)) { stop (ri, RI_UNSPEC, "fp to int conversion out of range"); break; }
      r.u.i = (int64_t) x; set_op (ri, &fr, &o[0], r, 'i'); break; }
    case MIR_F2D: a = get_op (ri, &fr, &o[1], 'f'); r.u.d = (double) a.u.f; set_op (ri, &fr, &o[0], r, 'd'); break;
    case MIR_F2LD: a = get_op (ri, &fr, &o[1], 'f'); r.u.ld = (long double) a.u.f; set_op (ri, &fr, &o[0], r, 'l'); break;
    case MIR_D2F: a = get_op (ri, &fr, &o[1], 'd'); r.u.f = (float) a.u.d; set_op (ri, &fr, &o[0], r, 'f'); break;
    case MIR_D2LD: a = get_op (ri, &fr, &o[1], 'd'); r.u.ld = (long double) a.u.d; set_op (ri, &fr, &o[0], r, 'l'); break;
    case MIR_LD2F: a = get_op (ri, &fr, &o[1], 'l'); r.u.f = (float) a.u.ld; set_op (ri, &fr, &o[0], r, 'f'); break;
    case MIR_LD2D: a = get_op (ri, &fr, &o[1], 'l'); r.u.d = (double) a.u.ld; set_op (ri, &fr, &o[0], r, 'd'); break;
    case MIR_NEG: a = get_op (ri, &fr, &o[1], 'i'); r.u.u = 0 - a.u.u; r.taint = a.taint; set_op (ri, &fr, &o[0], r, 'i'); break;
    case MIR_NEGS: a = get_op (ri, &fr, &o[1], 'i'); r.u.i = I32 (0 - U32 (a.u.u)); r.taint = 1; set_op (ri, &fr, &o[0], r, 'i'); break;
    case MIR_FNEG: a = get_op (ri, &fr, &o[1], 'f'); r.u.f = -a.u.f; set_op (ri, &fr, &o[0], r, 'f'); break;
    case MIR_DNEG: a = get_op (ri, &fr, &o[1], 'd'); r.u.d = -a.u.d; set_op (ri, &fr, &o[0], r, 'd'); break;
    case MIR_LDNEG: a = get_op (ri, &fr, &o[1], 'l'); r.u.ld = -a.u.ld; set_op (ri, &fr, &o[0], r, 'l'); break;
    case MIR_ADDR: case MIR_ADDR8: case MIR_ADDR16: case MIR_ADDR32:
      if (o[1].mode != MIR_OP_REG) { stop (ri, RI_BAD, "addr of non-register"); break; }
      if (fr.regs[o[1].u.reg].taint) { stop (ri, RI_UNSPEC, "address of a variable holding a 32-bit result"); break; }
      fr.addr_taken[o[1].u.reg] = 1; r.u.u = (uint64_t) (uintptr_t) &fr.regs[o[1].u.reg].u; /* little endian: same address for every width */
      set_op (ri, &fr, &o[0], r, 'i'); break;
#define BIN64(OP) a = get_op (ri, &fr, &o[1], 'i'); b = get_op (ri, &fr, &o[2], 'i'); r.u.u = a.u.u OP b.u.u; r.taint = a.taint | b.taint; set_op (ri, &fr, &o[0], r, 'i'); break
#define BIN32(OP) a = get_op (ri, &fr, &o[1], 'i'); b = get_op (ri, &fr, &o[2], 'i'); r.u.i = I32 (U32 (a.u.u) OP U32 (b.u.u)); r.taint = 1; set_op (ri, &fr, &o[0], r, 'i'); break
    case MIR_ADD: BIN64 (+); case MIR_SUB: BIN64 (-); case MIR_MUL: BIN64 (*);
    case MIR_AND: BIN64 (&); case MIR_OR: BIN64 (|); case MIR_XOR: BIN64 (^);
    case MIR_ADDS: BIN32 (+); case MIR_SUBS: BIN32 (-); case MIR_MULS: BIN32 (*);
    case MIR_ANDS: BIN32 (&); case MIR_ORS: BIN32 (|); case MIR_XORS: BIN32 (^);
    case MIR_DIV: case MIR_MOD:
      a = full (ri, get_op (ri, &fr, &o[1], 'i'), "div"); b = full (ri, get_op (ri, &fr, &o[2], 'i'), "div"); if (ri->status) break;
      if (b.u.i == 0 || (a.u.i == INT64_MIN && b.u.i == -1)) { stop (ri, RI_UNSPEC, "division by zero or overflow"); break; }
      r.u.i = c == MIR_DIV ? a.u.i / b.u.i : a.u.i % b.u.i; set_op (ri, &fr, &o[0], r, 'i'); break;
    case MIR_UDIV: case MIR_UMOD:
      a = full (ri, get_op (ri, &fr, &o[1], 'i'), "udiv"); b = full (ri, get_op (ri, &fr, &o[2], 'i'), "udiv"); if (ri->status) break;
      if (b.u.u == 0) { stop (ri, RI_UNSPEC, "division by zero"); break; }
      r.u.u = c == MIR_UDIV ? a.u.u / b.u.u : a.u.u % b.u.u; set_op (ri, &fr, &o[0], r, 'i'); break;
    case MIR_DIVS: case MIR_MODS: {
      a = get_op (ri, &fr, &o[1], 'i'); b = get_op (ri, &fr, &o[2], 'i'); int32_t x = I32 (a.u.u), y = I32 (b.u.u);
      if (y == 0 || (x == INT32_MIN && y == -1)) { stop (ri, RI_UNSPEC, "division by zero or overflow"); break; }
      r.u.i = c == MIR_DIVS ? x / y : x % y; r.taint = 1; set_op (ri, &fr, &o[0], r, 'i'); break; }
    case MIR_UDIVS: case MIR_UMODS: {
      a = get_op (ri, &fr, &o[1], 'i'); b = get_op (ri, &fr, &o[2], 'i'); uint32_t x = U32 (a.u.u), y = U32 (b.u.u);
      if (y == 0) { stop (ri, RI_UNSPEC, "division by zero"); break; }
      r.u.i = I32 (c == MIR_UDIVS ? x / y : x % y); r.taint = 1; set_op (ri, &fr, &o[0], r, 'i'); break; }
    case MIR_LSH: case MIR_RSH: case MIR_URSH:
      a = get_op (ri, &fr, &o[1], 'i'); b = full (ri, get_op (ri, &fr, &o[2], 'i'), "shift count"); if (ri->status) break;
      if (b.u.u >= 64) { stop (ri, RI_UNSPEC, "shift count >= 64"); break; }
      if (c == MIR_LSH) { r.u.u = a.u.u << b.u.u; r.taint = a.taint; }
      else { full (ri, a, "right shift"); r.u.u = c == MIR_RSH ? (uint64_t) (a.u.i >> b.u.u) : a.u.u >> b.u.u; }
      set_op (ri, &fr, &o[0], r, 'i'); break;
    case MIR_LSHS: case MIR_RSHS: case MIR_URSHS:
      a = get_op (ri, &fr, &o[1], 'i'); b = full (ri, get_op (ri, &fr, &o[2], 'i'), "shift count"); if (ri->status) break;
      if (b.u.u >= 32) { stop (ri, RI_UNSPEC, "32-bit shift count >= 32"); break; }
      r.u.i = c == MIR_LSHS ? I32 (U32 (a.u.u) << b.u.u) : c == MIR_RSHS ? (int64_t) (I32 (a.u.u) >> b.u.u) : I32 (U32 (a.u.u) >> b.u.u);
      r.taint = 1; set_op (ri, &fr, &o[0], r, 'i'); break;
#define FBIN(K, FLD, OP) a = get_op (ri, &fr, &o[1], K); b = get_op (ri, &fr, &o[2], K); r.u.FLD = a.u.FLD OP b.u.FLD; set_op (ri, &fr, &o[0], r, K); break
    case MIR_FADD: FBIN ('f', f, +); case MIR_FSUB: FBIN ('f', f, -); case MIR_FMUL: FBIN ('f', f, *); case MIR_FDIV: FBIN ('f', f, /);
    case MIR_DADD: FBIN ('d', d, +); case MIR_DSUB: FBIN ('d', d, -); case MIR_DMUL: FBIN ('d', d, *); case MIR_DDIV: FBIN ('d', d, /);
    case MIR_LDADD: FBIN ('l', ld, +); case MIR_LDSUB: FBIN ('l', ld, -); case MIR_LDMUL: FBIN ('l', ld, *); case MIR_LDDIV: FBIN ('l', ld, /);
    case MIR_ADDO: case MIR_SUBO: case MIR_MULO: case MIR_UMULO: {
      a = full (ri, get_op (ri, &fr, &o[1], 'i'), "overflow insn"); b = full (ri, get_op (ri, &fr, &o[2], 'i'), "overflow insn"); if (ri->status) break;
      if (c == MIR_ADDO) { r.u.u = a.u.u + b.u.u; ri->ovf_u = r.u.u < a.u.u; ri->ovf_s = ((a.u.i >= 0) == (b.u.i >= 0)) && ((r.u.i >= 0) != (a.u.i >= 0)); ri->ovf_valid = 3; }
      else if (c == MIR_SUBO) { r.u.u = a.u.u - b.u.u; ri->ovf_u = a.u.u < b.u.u; ri->ovf_s = ((a.u.i >= 0) != (b.u.i >= 0)) && ((r.u.i >= 0) != (a.u.i >= 0)); ri->ovf_valid = 3; }
      else if (c == MIR_MULO) { __int128 p = (__int128) a.u.i * b.u.i; r.u.i = (int64_t) p; ri->ovf_s = p != (__int128) r.u.i; ri->ovf_valid = 1; }
      else { unsigned __int128 p = (unsigned __int128) a.u.u * b.u.u; r.u.u = (uint64_t) p; ri->ovf_u = (p >> 64) != 0; ri->ovf_valid = 2; }
      set_op (ri, &fr, &o[0], r, 'i'); keep_ovf = 1; break; }
    case MIR_ADDOS: case MIR_SUBOS: case MIR_MULOS: case MIR_UMULOS: {
      a = get_op (ri, &fr, &o[1], 'i'); b = get_op (ri, &fr, &o[2], 'i'); int32_t x = I32 (a.u.u), y = I32 (b.u.u); uint32_t ux = x, uy = y;
      if (c == MIR_ADDOS) { int64_t s = (int64_t) x + y; r.u.i = I32 (ux + uy); ri->ovf_s = s != r.u.i; ri->ovf_u = (uint64_t) ux + uy > 0xffffffffu; ri->ovf_valid = 3; }
      else if (c == MIR_SUBOS) { int64_t s = (int64_t) x - y; r.u.i = I32 (ux - uy); ri->ovf_s = s != r.u.i; ri->ovf_u = ux < uy; ri->ovf_valid = 3; }
      else if (c == MIR_MULOS) { int64_t p = (int64_t) x * y; r.u.i = I32 (ux * uy); ri->ovf_s = p != r.u.i; ri->ovf_valid = 1; }
      else { uint64_t p = (uint64_t) ux * uy; r.u.i = I32 ((uint32_t) p); ri->ovf_u = (p >> 32) != 0; ri->ovf_valid = 2; }
      r.taint = 1; set_op (ri, &fr, &o[0], r, 'i'); keep_ovf = 1; break; }
    case MIR_BO: case MIR_BNO: case MIR_UBO: case MIR_UBNO: {
      int need = (c == MIR_BO || c == MIR_BNO) ? 1 : 2;
      if (!(ri->ovf_valid & need)) { stop (ri, RI_UNSPEC, "overflow branch without a matching overflow insn"); break; }
      int fl = need == 1 ? ri->ovf_s : ri->ovf_u;
      if ((c == MIR_BO || c == MIR_UBO) ? fl : !fl) next = o[0].u.label;
      break; }
    case MIR_JMP: next = o[0].u.label; break;
    case MIR_BT: case MIR_BF: a = full (ri, get_op (ri, &fr, &o[1], 'i'), "bt/bf"); if ((a.u.i != 0) == (c == MIR_BT)) next = o[0].u.label; break;
    case MIR_BTS: case MIR_BFS: a = get_op (ri, &fr, &o[1], 'i'); if ((I32 (a.u.u) != 0) == (c == MIR_BTS)) next = o[0].u.label; break;
    case MIR_LADDR: r.u.u = (uint64_t) (uintptr_t) o[1].u.label; set_op (ri, &fr, &o[0], r, 'i'); break;
    case MIR_JMPI: a = full (ri, get_op (ri, &fr, &o[0], 'i'), "jmpi"); if (ri->status) break;
      next = find_label (&fr, a.u.u); if (next == NULL) stop (ri, RI_UNSPEC, "jmpi to something that is not a label of this function"); break;
    case MIR_SWITCH: a = full (ri, get_op (ri, &fr, &o[0], 'i'), "switch"); if (ri->status) break;
      if (a.u.u >= insn->nops - 1) { stop (ri, RI_UNSPEC, "switch index out of range"); break; }
      next = o[1 + a.u.u].u.label; break;
    case MIR_CALL: case MIR_INLINE: do_call (ri, &fr, insn); break;
    case MIR_RET:
      if (insn->nops != f->nres) { stop (ri, RI_BAD, "ret operand count"); break; }
      for (uint32_t i = 0; i < f->nres; i++) {
        MIR_type_t rt = f->res_types[i]; char k = rt == MIR_T_F ? 'f' : rt == MIR_T_D ? 'd' : rt == MIR_T_LD ? 'l' : 'i';
        results[i] = get_op (ri, &fr, &o[i], k);
        if (k == 'i') { /* the value is truncated to the function's return type first */
          if (type_size (rt) <= 4) { results[i].u.i = ext_by_type (results[i].u.i, rt); results[i].taint = 0; }
        }
      }
      next = NULL; goto done;
    case MIR_ALLOCA: { a = full (ri, get_op (ri, &fr, &o[1], 'i'), "alloca size"); if (ri->status) break;
      uint8_t *p = arena_alloc (ri, a.u.u ? a.u.u : 1, 0); if (!p) break;
      r.u.u = (uint64_t) (uintptr_t) p; set_op (ri, &fr, &o[0], r, 'i'); break; }
    case MIR_BSTART: r.u.u = ri->arena_top; set_op (ri, &fr, &o[0], r, 'i'); break;
    case MIR_BEND: a = full (ri, get_op (ri, &fr, &o[0], 'i'), "bend"); if (ri->status) break;
      if (a.u.u < fr.arena_base || a.u.u > ri->arena_top) { stop (ri, RI_UNSPEC, "bend with a value not produced by bstart of this frame"); break; }
      ri->arena_top = a.u.u; break;
    default: {
      /* compare and compare-and-branch families */
      static const struct { MIR_insn_code_t base; int fam; } cmpf[] = {{MIR_EQ, 0}, {MIR_NE, 1}, {MIR_LT, 2}, {MIR_LE, 3}, {MIR_GT, 4}, {MIR_GE, 5}};
      static const struct { MIR_insn_code_t base; int fam; } brf[] = {{MIR_BEQ, 0}, {MIR_BNE, 1}, {MIR_BLT, 2}, {MIR_BLE, 3}, {MIR_BGT, 4}, {MIR_BGE, 5}};
      int done = 0;
      for (int k = 0; k < 6 && !done; k++) {
        int n = cmpf[k].fam <= 1 ? 5 : 7, off = c - cmpf[k].base, boff = c - brf[k].base, br = 0;
        if (off >= 0 && off < n) br = 0; else if (boff >= 0 && boff < n) { br = 1; off = boff; } else continue;
        /* layout: EQ,EQS,FEQ,DEQ,LDEQ  |  LT,LTS,ULT,ULTS,FLT,DLT,LDLT */
        int is_fp = n == 5 ? off >= 2 : off >= 4, res;
        const MIR_op_t *x = br ? &o[1] : &o[1], *y = br ? &o[2] : &o[2];
        if (!is_fp) {
          int s32 = off & 1, u = n == 7 && off >= 2;
          a = get_op (ri, &fr, x, 'i'); b = get_op (ri, &fr, y, 'i');
          if (!s32) { full (ri, a, "64-bit compare"); full (ri, b, "64-bit compare"); }
          if (ri->status) { done = 1; break; }
          res = icmp (cmpf[k].fam, a.u.i, b.u.i, u, s32);
          r.taint = s32;
        } else {
          int w = n == 5 ? off - 2 : off - 4; char kk = w == 0 ? 'f' : w == 1 ? 'd' : 'l';
          a = get_op (ri, &fr, x, kk); b = get_op (ri, &fr, y, kk); if (ri->status) { done = 1; break; }
          long double p = w == 0 ? a.u.f : w == 1 ? a.u.d : a.u.ld, q = w == 0 ? b.u.f : w == 1 ? b.u.d : b.u.ld;
          res = fcmp (cmpf[k].fam, p, q);
        }
        if (br) { if (res) next = o[0].u.label; }
        else { r.u.i = res; set_op (ri, &fr, &o[0], r, 'i'); }
        done = 1;
      }
      if (!done) stop (ri, RI_UNSUPPORTED, "instruction %s", MIR_insn_name (ri->ctx, c));
    }
    }
    if (!keep_ovf) ri->ovf_valid = 0;
    insn = next;
  }
  if (ri->status == RI_OK && insn == NULL) stop (ri, RI_UNSPEC, "control falls off the end of function %s", f->name);
done:
  ri->arena_top = fr.arena_base;
  free (fr.regs); free (fr.addr_taken);
  ri->depth--;
  return ri->status;
}
