/* refinterp.h - independent reference interpreter for un-linked MIR (DESIGN.md §2.3).
   Executes a MIR_func_t straight from the API data structures, before MIR_load_module, following
   MIR.md.  Shares no code with mir-interp.c / mir-gen.c / the link-time simplifier.  */
#ifndef REFINTERP_H
#define REFINTERP_H
#include "mir.h"
#include <stdint.h>

typedef struct ri_val {
  union { int64_t i; uint64_t u; float f; double d; long double ld; } u;
  uint8_t taint; /* 1: integer whose upper 32 bits are undefined (result of a 32-bit insn) */
} ri_val;

typedef enum { RI_OK = 0, RI_UNSPEC, RI_UNSUPPORTED, RI_FUEL, RI_BAD } ri_status;

typedef struct ri_ext { const char *name; void *addr; int is_func; } ri_ext;

typedef struct ri_ctx {
  MIR_context_t ctx;
  const ri_ext *exts; int n_exts;
  uint64_t fuel;            /* remaining instruction budget */
  int depth, max_depth;
  uint8_t *arena, *shadow;  /* alloca / block-copy stack and its initialised-byte map */
  size_t arena_size, arena_top;
  ri_status status; char why[200];
  int ovf_s, ovf_u, ovf_valid; /* overflow flags: written only by the eight overflow insns */
  uint64_t steps;
  uint64_t misaligned;      /* memory accesses whose address is not a multiple of the natural alignment of the operand type (defined by the engines on x86-64; undefined in a C translation) */
} ri_ctx;

void ri_init (ri_ctx *ri, MIR_context_t ctx, const ri_ext *exts, int n_exts, uint64_t fuel);
void ri_finish (ri_ctx *ri);
/* call func_item with nargs values (one per declared argument, integers as int64); results receives func->nres values */
ri_status ri_call (ri_ctx *ri, MIR_item_t func_item, const ri_val *args, int nargs, ri_val *results);
/* evaluate a single-instruction semantic directly (used by C02): not needed, C02 wraps insns in functions */
const char *ri_status_name (ri_status s);
#endif
