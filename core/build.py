"""Content-hashed build cache of /repo (DESIGN.md §2.1).

Every check calls lib(variant) / link_driver(...) which compile from /repo's
*current working tree*.  Cache key per object = sha256(preprocessed TU + flags),
so an unchanged tree costs a few hundred ms and an edited file rebuilds only the
objects whose preprocessed text changed.
"""
import hashlib, os, subprocess, sys, concurrent.futures as cf, fcntl, shutil

REPO = os.environ.get("VP_REPO", "/repo")
VERIF = os.path.dirname(os.path.dirname(os.path.abspath(__file__)))
BUILD = os.path.join(VERIF, "build")
GUARD = "MIR_VERIF"

COMMON = ["-std=gnu11", "-Wno-abi", "-fsigned-char", "-fPIC", "-fno-tree-sra",
          "-fno-ipa-cp-clone", "-DNDEBUG", "-DMIR_PARALLEL_GEN", "-D" + GUARD, "-w"]
VARIANTS = {
    # the judged artefact: flags of the CMake RelWithDebInfo build the tests use
    "prod": {"cc": "gcc", "cflags": ["-O2", "-O3"] + COMMON, "ldflags": []},
    "asan": {"cc": "gcc",
             "cflags": ["-O1", "-g", "-fsanitize=address", "-fsanitize-recover=address",
                        "-fno-omit-frame-pointer"] + COMMON,
             "ldflags": ["-fsanitize=address"]},
    "tsan": {"cc": "gcc", "cflags": ["-O1", "-g", "-fsanitize=thread"] + COMMON,
             "ldflags": ["-fsanitize=thread"]},
    "noinl": {"cc": "gcc",
              "cflags": ["-O2", "-O3", "-DMIR_MAX_INSNS_FOR_INLINE=0",
                         "-DMIR_MAX_INSNS_FOR_CALL_INLINE=0"] + COMMON, "ldflags": []},
}
LIB_TUS = {"mir": "mir.c", "mir-gen": "mir-gen.c", "c2mir": "c2mir/c2mir.c", "mir2c": "mir2c/mir2c.c"}


def _run(cmd, **kw):
    r = subprocess.run(cmd, stdout=subprocess.PIPE, stderr=subprocess.PIPE, **kw)
    if r.returncode != 0:
        sys.stderr.write("BUILD FAILED: %s\n%s\n" % (" ".join(cmd), r.stderr.decode(errors="replace")[-4000:]))
        raise SystemExit(2)
    return r


def _obj(cc, cflags, src, incs, tag):
    """compile src -> cached object, return its path"""
    os.makedirs(os.path.join(BUILD, "obj"), exist_ok=True)
    pp = _run([cc, "-E", "-P"] + cflags + incs + [src]).stdout
    h = hashlib.sha256(pp + b"\0" + " ".join([cc] + cflags).encode()).hexdigest()[:24]
    out = os.path.join(BUILD, "obj", "%s-%s.o" % (tag, h))
    if not os.path.exists(out):
        tmp = out + ".%d.tmp" % os.getpid()
        _run([cc, "-c"] + cflags + incs + [src, "-o", tmp])
        os.replace(tmp, out)
    return out


def lib(variant, tus=("mir", "mir-gen", "c2mir")):
    """objects of the MIR library in the given variant, built from REPO now"""
    v = VARIANTS[variant]
    incs = ["-I" + REPO]
    with cf.ThreadPoolExecutor(max_workers=4) as ex:
        futs = [ex.submit(_obj, v["cc"], v["cflags"], os.path.join(REPO, LIB_TUS[t]), incs,
                          "%s-%s" % (variant, t)) for t in tus]
        return [f.result() for f in futs]


def extra_obj(variant, relsrc, extra_flags=()):
    v = VARIANTS[variant]
    tag = "%s-%s" % (variant, relsrc.replace("/", "_").replace(".c", ""))
    return _obj(v["cc"], v["cflags"] + list(extra_flags), os.path.join(REPO, relsrc), ["-I" + REPO], tag)


def link_driver(name, variant, srcs, tus=("mir", "mir-gen"), cflags=(), ldflags=(), libs=("-lm", "-ldl", "-lpthread"),
                driver_opt="-O1", extra_objs=()):
    """compile the check driver sources (paths relative to VERIF) with the variant's sanitizer flags and
    link with the library objects of that variant; returns path to the executable"""
    v = VARIANTS[variant]
    san = [f for f in v["cflags"] if f.startswith("-fsanitize") or f.startswith("-fno-sanitize") or f == "-fno-omit-frame-pointer"]
    dflags = [driver_opt, "-g", "-std=gnu11", "-w", "-fno-strict-aliasing", "-fwrapv", "-DNDEBUG", "-D" + GUARD] + san + list(cflags)
    if any("address" in f for f in san):
        dflags.append("-fno-sanitize-address-use-after-scope")  # drivers longjmp out of MIR error callbacks: scope tracking gives false reports there
    incs = ["-I" + REPO, "-I" + os.path.join(VERIF, "core"), "-I" + os.path.join(VERIF, "checks")]
    objs = list(lib(variant, tus)) if tus else []
    with cf.ThreadPoolExecutor(max_workers=8) as ex:
        futs = [ex.submit(_obj, v["cc"], dflags, os.path.join(VERIF, s), incs,
                          "%s-drv-%s" % (variant, os.path.basename(s).replace(".c", ""))) for s in srcs]
        objs += [f.result() for f in futs]
    objs += list(extra_objs)
    h = hashlib.sha256(("\0".join(objs) + "\0" + " ".join(list(ldflags) + list(libs) + v["ldflags"])).encode()).hexdigest()[:16]
    os.makedirs(os.path.join(BUILD, "bin"), exist_ok=True)
    exe = os.path.join(BUILD, "bin", "%s-%s-%s" % (name, variant, h))
    if not os.path.exists(exe):
        tmp = exe + ".%d.tmp" % os.getpid()
        _run([v["cc"]] + objs + v["ldflags"] + list(ldflags) + list(libs) + ["-o", tmp])
        os.replace(tmp, exe)
    return exe


def c2m(variant="prod"):
    """the real c2m driver binary built from the tree"""
    v = VARIANTS[variant]
    objs = list(lib(variant)) + [extra_obj(variant, "c2mir/c2mir-driver.c")]
    h = hashlib.sha256("\0".join(objs).encode()).hexdigest()[:16]
    os.makedirs(os.path.join(BUILD, "bin"), exist_ok=True)
    exe = os.path.join(BUILD, "bin", "c2m-%s-%s" % (variant, h))
    if not os.path.exists(exe):
        tmp = exe + ".%d.tmp" % os.getpid()
        _run([v["cc"]] + objs + v["ldflags"] + ["-lm", "-ldl", "-lpthread", "-o", tmp])
        os.replace(tmp, exe)
    return exe


def gc(max_files=400):
    """drop oldest cached objects/binaries so the cache cannot grow without bound"""
    for sub in ("obj", "bin"):
        d = os.path.join(BUILD, sub)
        if not os.path.isdir(d):
            continue
        fs = sorted((os.path.join(d, f) for f in os.listdir(d)), key=os.path.getatime)
        for f in fs[:-max_files]:
            try:
                os.remove(f)
            except OSError:
                pass


if __name__ == "__main__":
    import time
    t = time.time()
    for var in sys.argv[1:] or ["prod"]:
        print(var, lib(var))
    print("%.1fs" % (time.time() - t))
