"""Shard pool, crash/hang containment, known-findings matching, evidence writing (DESIGN.md §2.2, §5)."""
import json, os, re, signal, struct, subprocess, sys, tempfile, time, shutil

VERIF = os.path.dirname(os.path.dirname(os.path.abspath(__file__)))
NCPU = int(os.environ.get("VP_JOBS", os.cpu_count() or 4))
SEED = int(os.environ.get("VERIF_SEED", "0") or 0)
STATUS_FMT = "<8Q"
NSTAT = 96


_own_workdirs = []


def _cleanup_workdirs():
    for d in _own_workdirs:
        shutil.rmtree(d, ignore_errors=True)


def workdir(prop):
    """a scratch directory private to this process (two runs of the same check must not share batch files);
    removed at exit; directories left behind by processes that no longer exist are removed here"""
    base = os.path.join(VERIF, "build", "work")
    os.makedirs(base, exist_ok=True)
    for n in os.listdir(base):
        if n.startswith(prop + ".") and n[len(prop) + 1:].isdigit() and not os.path.exists("/proc/" + n[len(prop) + 1:]):
            shutil.rmtree(os.path.join(base, n), ignore_errors=True)
    d = os.path.join(base, "%s.%d" % (prop, os.getpid()))
    shutil.rmtree(d, ignore_errors=True)
    os.makedirs(d, exist_ok=True)
    if not _own_workdirs:
        import atexit
        atexit.register(_cleanup_workdirs)
    _own_workdirs.append(d)
    return d


def read_status(path):
    try:
        b = open(path, "rb").read()
    except OSError:
        return None
    if len(b) < 64:
        return None
    magic, cur, state, ncases, done, nontriv, last_done, nstat = struct.unpack_from(STATUS_FMT, b, 0)
    if magic != 0x5650535441545553:
        return None
    stats = {}
    off = 64
    for i in range(min(nstat, NSTAT)):
        key = b[off:off + 40].split(b"\0")[0].decode()
        val = struct.unpack_from("<Q", b, off + 40)[0]
        stats[key] = val
        off += 48
    return dict(cur=cur, state=state, ncases=ncases, done=done, nontrivial=nontriv, last_done=last_done, stats=stats)


def _asan_env(env):
    e = dict(os.environ)
    e.setdefault("ASAN_OPTIONS", "detect_leaks=0:exitcode=97:abort_on_error=0:halt_on_error=0:allocator_may_return_null=1:detect_stack_use_after_return=0:handle_segv=1")
    e.setdefault("UBSAN_OPTIONS", "print_stacktrace=0")
    e.setdefault("TSAN_OPTIONS", "exitcode=96:halt_on_error=1")
    if env:
        e.update(env)
    return e


def run_only(exe, tier, idx, env=None, case_timeout=None, extra=()):
    """run one case in a fresh process; returns (kind, desc, msg) or None if OK"""
    cmd = [exe, "--tier", tier, "--only", str(idx)] + list(extra)
    if case_timeout:
        cmd += ["--case-timeout", str(case_timeout)]
    try:
        r = subprocess.run(cmd, stdout=subprocess.PIPE, stderr=subprocess.PIPE, env=_asan_env(env), timeout=(case_timeout or 20) * 3 + 60)
        rc, so, se = r.returncode, r.stdout.decode(errors="replace"), r.stderr.decode(errors="replace")
    except subprocess.TimeoutExpired as ex:
        rc, so, se = -signal.SIGALRM, (ex.stdout or b"").decode(errors="replace"), ""
    desc = ""
    fail = None
    for ln in so.splitlines():
        p = ln.split("\t")
        if p[0] == "CASE" and len(p) >= 3:
            desc = p[2]
        elif p[0] == "FAIL" and len(p) >= 5 and fail is None:
            fail = (p[2], p[3], p[4])
    if rc != 0:
        kind = classify_exit(rc, se)
        return (kind, desc, first_report_line(se))
    return fail


def describe(exe, tier, idx, env=None, extra=()):
    r = subprocess.run([exe, "--tier", tier, "--only", str(idx), "--describe"] + list(extra), stdout=subprocess.PIPE, stderr=subprocess.DEVNULL, env=_asan_env(env))
    for ln in r.stdout.decode(errors="replace").splitlines():
        p = ln.split("\t")
        if p[0] == "CASE" and len(p) >= 3:
            return p[2]
    return "idx=%d" % idx


def classify_exit(rc, stderr):
    if rc == 97 or "AddressSanitizer" in stderr:
        m = re.search(r"AddressSanitizer: ([\w-]+)", stderr)
        return "asan:" + (m.group(1) if m else "report")
    if rc == 96 or "ThreadSanitizer" in stderr:
        return "tsan"
    if rc < 0:
        try:
            name = signal.Signals(-rc).name
        except ValueError:
            name = str(-rc)
        return "hang" if name == "SIGALRM" else "crash:" + name
    return "exit:%d" % rc


def first_report_line(se):
    for ln in se.splitlines():
        if "ERROR:" in ln or "SUMMARY:" in ln or "runtime error" in ln:
            return ln.strip()[:300]
    ls = [l for l in se.splitlines() if l.strip()]
    return (ls[-1].strip()[:300] if ls else "")


MAX_CRASHING_CASES = 320


def run_driver(exe, tier, prop, nshards=None, deadline=None, env=None, case_timeout=20, extra=(), limit=None):
    """enumerate the driver's whole case space on nshards processes.  Returns dict with
    fails [(idx, kind, desc, msg)], stats, samples, outcomes (set of hashes), ncases, done, exhaustive."""
    nshards = nshards or NCPU
    wd = workdir(prop + "-" + os.path.basename(exe)[:40])
    t0 = time.time()
    procs = {}

    def start(s, frm):
        cmd = [exe, "--tier", tier, "--shard", "%d/%d" % (s, nshards), "--from", str(frm),
               "--status", os.path.join(wd, "st%d" % s), "--out", os.path.join(wd, "out%d" % s),
               "--outcomes", os.path.join(wd, "oc%d" % s), "--case-timeout", str(case_timeout)] + list(extra)
        if deadline:
            cmd += ["--deadline", "%.1f" % max(1.0, deadline - (time.time() - t0))]
        if limit is not None:
            cmd += ["--limit", str(limit)]
        procs[s] = subprocess.Popen(cmd, stdout=subprocess.DEVNULL, stderr=open(os.path.join(wd, "err%d" % s), "wb"), env=_asan_env(env))

    for s in range(nshards):
        start(s, 0)
    crashes = []
    restarts = 0
    gave_up = False
    while procs:
        for s, p in list(procs.items()):
            rc = p.poll()
            if rc is None:
                continue
            del procs[s]
            if rc == 0:
                continue
            stt = read_status(os.path.join(wd, "st%d" % s))
            se = open(os.path.join(wd, "err%d" % s), "rb").read().decode(errors="replace")
            if stt is None or stt["state"] != 0:
                # died outside a case (init or teardown): infrastructure problem, not a verdict
                sys.stderr.write("driver %s shard %d died outside a case rc=%s\n%s\n" % (exe, s, rc, se[-3000:]))
                raise SystemExit(2)
            crashes.append((stt["cur"], classify_exit(rc, se), first_report_line(se)))
            restarts += 1
            if restarts > MAX_CRASHING_CASES:
                # a mass failure (e.g. hundreds of hanging cases) is reported from what has been seen; the enumeration is marked as not exhaustive
                sys.stderr.write("%s: %d crashing/hanging cases; enumeration stopped early\n" % (prop, restarts))
                for q in procs.values():
                    q.kill()
                for q in procs.values():
                    q.wait()
                procs.clear()
                gave_up = True
                break
            start(s, stt["cur"] + 1)
        time.sleep(0.02)
    fails, samples, stats, outcomes = [], [], {}, set()
    ncases = done = nontriv = 0
    exhaustive = True
    saturated = False
    min_incomplete = None
    for s in range(nshards):
        stt = read_status(os.path.join(wd, "st%d" % s))
        if stt is None:
            sys.stderr.write("missing status for shard %d\n" % s)
            raise SystemExit(2)
        ncases = stt["ncases"]
        done += stt["done"]
        nontriv += stt["nontrivial"]
        if stt["state"] != 2:
            exhaustive = False
        for k, v in stt["stats"].items():
            if k.startswith("max:"):
                stats[k] = max(stats.get(k, 0), v)
            else:
                stats[k] = stats.get(k, 0) + v
        op = os.path.join(wd, "out%d" % s)
        if os.path.exists(op):
            for ln in open(op, errors="replace"):
                p = ln.rstrip("\n").split("\t")
                if p[0] == "FAIL" and len(p) >= 5:
                    fails.append((int(p[1]), p[2], p[3], p[4]))
                elif p[0] == "SAMPLE" and len(samples) < 8:
                    samples.append(p[1])
                elif p[0] == "DONE" and len(p) >= 4 and p[3] == "1":
                    saturated = True
        oc = os.path.join(wd, "oc%d" % s)
        if os.path.exists(oc):
            b = open(oc, "rb").read()
            outcomes.update(struct.unpack("<%dQ" % (len(b) // 8), b[:len(b) // 8 * 8]))
    if (limit is not None and limit < ncases) or gave_up:
        exhaustive = False
    # attribute crashes: replay each twice in a fresh process; both must reproduce identically
    per_kind = {}
    for idx, kind, msg in crashes:
        per_kind[kind] = per_kind.get(kind, 0) + 1
        # the first few instances of each failure kind are replayed twice in a fresh process; the rest are attributed from the status page
        if per_kind[kind] > (1 if kind == "hang" else 4):
            fails.append((idx, kind, describe(exe, tier, idx, env, extra), msg + " (attributed from the status page, not re-run)"))
            continue
        ct = min(case_timeout * 3, 120) if kind == "hang" else case_timeout
        r1 = run_only(exe, tier, idx, env, ct, extra)
        r2 = run_only(exe, tier, idx, env, ct, extra)
        if r1 is None and r2 is None:
            stats["unreproduced_crashes"] = stats.get("unreproduced_crashes", 0) + 1
            sys.stderr.write("note: %s idx=%d (%s) did not reproduce in isolation; not reported\n" % (prop, idx, kind))
            continue
        if r1 is None or r2 is None or r1[0] != r2[0]:
            sys.stderr.write("nondeterministic replay for %s idx=%d: %r vs %r\n" % (prop, idx, r1, r2))
            raise SystemExit(2)
        fails.append((idx, r1[0], r1[1], r1[2] or msg))
    fails.sort()
    return dict(fails=fails, stats=stats, samples=samples, outcomes=outcomes, ncases=ncases, done=done,
                nontrivial=nontriv, exhaustive=exhaustive,
                outcomes_saturated=saturated, exe=exe, tier=tier, env=env or {}, extra=list(extra), wall=time.time() - t0)


# ------------------------------------------------------------------------------------------
# known findings

def load_known(prop):
    known = []
    path = os.path.join(VERIF, "KNOWN_FINDINGS.txt")
    if not os.path.exists(path):
        return known
    for ln in open(path):
        ln = ln.strip()
        if not ln.startswith("known:"):
            continue
        f = dict(re.findall(r"(\w+)=((?:(?! \w+=).)*)", ln[6:]))
        if f.get("property") != prop:
            continue
        known.append(dict(id=f.get("id", "?"), kind=re.compile(f.get("kind", ".*")), match=re.compile(f.get("match", "$^")),
                          what=f.get("what", ""), where=f.get("where", "")))
    return known


class Report:
    """collects failures of one check run, applies KNOWN_FINDINGS, writes replays + evidence, decides exit code"""

    def __init__(self, prop, tier, level):
        self.prop, self.tier, self.level = prop, tier, level
        self.t0 = time.time()
        self.fails = []      # dicts: desc, kind, msg, replay(dict)
        self.coverage = {}
        self.assumptions = []
        self.known = load_known(prop)

    def add_fail(self, desc, kind, msg, replay=None):
        self.fails.append(dict(desc=desc, kind=kind, msg=msg, replay=replay or {}))

    def add_driver_result(self, res, label=""):
        for idx, kind, desc, msg in res["fails"]:
            self.add_fail((label + " " if label else "") + desc, kind, msg,
                          dict(exe=res["exe"], tier=res["tier"], idx=idx, env=res["env"], extra=res["extra"]))

    def finish(self):
        hit = {}
        viol = []
        if isinstance(getattr(self, "coverage", None), dict) and self.coverage.get("samples") == []:
            # an enumeration that stopped early (mass failure) may not have reached a sampling index: the first failing descriptors stand in
            self.coverage["samples"] = [f["desc"][:300] for f in self.fails[:3]] or ["(no case reached a sampling index)"]
        for f in self.fails:
            k = next((k for k in self.known if k["match"].search(f["desc"] + " :: " + f["msg"]) and k["kind"].search(f["kind"])), None)
            if k:
                hit.setdefault(k["id"], [k, 0])[1] += 1
            else:
                viol.append(f)
        for kid, (k, n) in sorted(hit.items()):
            print("KNOWN-FINDING: property=%s id=%s %s (%d cases; %s)" % (self.prop, kid, k["what"], n, k["where"]))
        os.makedirs(os.path.join(VERIF, "replays"), exist_ok=True)
        os.makedirs(os.path.join(VERIF, "build", "work"), exist_ok=True)
        with open(os.path.join(VERIF, "build", "work", "%s-%s-violations.txt" % (self.prop, self.tier)), "w") as vf:
            for f in viol:
                vf.write("%s\t%s\t%s\n" % (f["kind"], f["desc"], f["msg"]))
        shown = 0
        for i, f in enumerate(viol):
            if shown >= 10:
                break
            path = os.path.join(VERIF, "replays", "%s-%s-%d.json" % (self.prop, self.tier, i))
            json.dump(dict(property=self.prop, **f), open(path, "w"), indent=1)
            print("VIOLATION property=%s replay=%s" % (self.prop, path))
            print("  kind=%s case=%s :: %s" % (f["kind"], f["desc"][:400], f["msg"][:400]))
            shown += 1
        if len(viol) > shown:
            print("  ... and %d more violating cases" % (len(viol) - shown))
        cov = dict(self.coverage)
        cov.setdefault("known_finding_cases", sum(n for _, n in hit.values()))
        ev = dict(property_id=self.prop, tier=self.tier, seed=SEED, level=self.level, coverage=cov,
                  assumptions=self.assumptions, wall_s=round(time.time() - self.t0, 2), violations=len(viol))
        os.makedirs(os.path.join(VERIF, "evidence"), exist_ok=True)
        json.dump(ev, open(os.path.join(VERIF, "evidence", "%s.json" % self.prop), "w"), indent=1, default=str)
        print("%s %s: %s  (%.1fs) %s" % (self.prop, self.tier, "FAILED" if viol else "ok", time.time() - self.t0,
                                         json.dumps({k: v for k, v in cov.items() if isinstance(v, (int, bool))})))
        return 1 if viol else 0


def replay(path):
    r = json.load(open(path))
    rp = r.get("replay", {})
    if "exe" in rp and os.path.exists(rp["exe"]):
        cmd = [rp["exe"], "--tier", rp["tier"], "--only", str(rp["idx"]), "-v"] + rp.get("extra", [])
        print("replaying:", " ".join(cmd))
        return subprocess.call(cmd, env=_asan_env(rp.get("env")))
    print(json.dumps(r, indent=1))
    print("(driver binary not in cache; re-run the check to rebuild it, the case index is stable)")
    return 0
