/* mirh.h - harness for pushing MIR text through the reference interpreter and the real engines. */
#ifndef MIRH_H
#define MIRH_H
#include "mir.h"
#include "mir-gen.h"
#include "refinterp.h"
#include <setjmp.h>
#include <stdint.h>

typedef enum { E_INTERP = 0, E_GEN0, E_GEN1, E_GEN2, E_GEN3, E_ISHIM, E_LAZY, E_LAZYBB, E_NENGINES } mh_engine;
extern const char *mh_engine_name[];

/* ---- external-call log ---- */
#define MH_LOG_MAX 256
typedef struct { int id; int64_t a[4]; } mh_logent;
extern mh_logent mh_log[MH_LOG_MAX]; extern int mh_log_n; extern uint64_t mh_seq;
void mh_log_reset (void);
uint64_t mh_log_hash (void);
void mh_log_text (char *buf, size_t n);

/* ---- harness memory ---- */
#define MH_BUF 256
extern uint8_t mh_buf[2][MH_BUF] __attribute__ ((aligned (16))); /* two buffers passed to programs */
extern uint8_t mh_gbuf[MH_BUF] __attribute__ ((aligned (16)));  /* imported by name "gbuf" */
void mh_mem_reset (void);           /* deterministic initial contents */
uint64_t mh_mem_hash (void);

/* ---- externals table (shared by refinterp and MIR_load_external) ---- */
extern const ri_ext mh_exts[]; extern const int mh_n_exts;

/* ---- contexts ---- */
typedef struct mh_tblk { struct mh_tblk *prev, *next; size_t size; long double align[0]; } mh_tblk;
typedef struct mh_ctx {
  MIR_context_t ctx; int gen_inited; mh_engine engine;
  int err; MIR_error_type_t err_type; char errmsg[256];
  mh_tblk head; struct MIR_alloc alloc; struct MIR_code_alloc calloc_; /* per-context tracking allocator */
} mh_ctx;
void mh_arm (int on);                                       /* arm / disarm the error trap around direct API calls (longjmp target mh_err_jb) */
extern jmp_buf mh_err_jb; extern mh_ctx *mh_cur;
/* all functions return 0 on success, -1 if the MIR error function was called (message in mc->errmsg) */
int mh_open (mh_ctx *mc);                                   /* MIR_init with tracking allocator + error trap */
int mh_scan (mh_ctx *mc, const char *text);
int mh_link (mh_ctx *mc, mh_engine e);                      /* load every module, externals, link with the engine's interface */
MIR_item_t mh_find_func (mh_ctx *mc, const char *name);
void mh_close (mh_ctx *mc);                                 /* gen_finish + finish; frees everything even after an error */

/* uniform calling convention of generated test functions:
   up to 6 integer-class and 8 double-class arguments, results per func->res_types (<= 2 supported natively) */
typedef struct { int ni, nd; int64_t i[6]; double d[8]; } mh_args;
int mh_call (mh_ctx *mc, MIR_item_t f, const mh_args *a, MIR_val_t *res); /* through the engine selected at link */
int mh_ref_call (ri_ctx *ri, MIR_item_t f, const mh_args *a, ri_val *res); /* reference interpreter, before mh_link */

/* compare one result value of type t; NaN matches NaN; only 10 bytes of long double; low32: compare low 32 bits only */
int mh_val_eq (MIR_type_t t, MIR_val_t a, MIR_val_t b, int low32);
void mh_val_text (MIR_type_t t, MIR_val_t v, char *buf, size_t n);
MIR_val_t mh_from_ri (MIR_type_t t, ri_val v);
#endif
