#!/usr/bin/env python3
"""Single source of truth for MANIFEST.json: run `python3 core/manifest.py` after editing the tables."""
import json, os
VERIF = os.path.dirname(os.path.dirname(os.path.abspath(__file__)))
CHECKS = {
 "C19": dict(cat="model_checking", technique="explicit-state BFS over operation histories on the real containers, lock-step reference models",
             text="Every history of container operations up to the stated depth (and from a grid of seed states) is executed on the real HTAB/bitmap/VARR/DLIST code; "
                  "states are deduplicated on the full internal representation; return values, change flags, free-function calls and contents are compared with a trivially correct reference after every transition.",
             note="asan build of the headers with a checking allocator; 64-bit state hashes; bounds: bitmap depth 2-3 from empty + depth 1-2 from 4096 seeds, HTAB depth 7-9 (3 keys) / 5-7 (5 keys) x 4 hash modes, VARR depth 5-7, DLIST depth 6-8 (5 nodes)",
             ref="§3 C19"),
}
CHECKS["C12"] = dict(cat="fault_enumeration", technique="exhaustive enumeration of inputs over small alphabets and of all single-position faults of their encodings, plus crafted element sequences, against the real encoder/decoder",
             text="Round trip is checked for every string over 2/3/4-symbol alphabets up to the tier's length and for boundary-length families; every truncation, every one-byte extension and every single-byte substitution of the encodings must be rejected; "
                  "every sequence of up to 2-3 crafted stream elements (lengths/indexes at the format's boundaries, after fillers that park the cursor near the buffer end) must be rejected without touching memory outside the decoder's block.",
             note="memory-safety oracle = guard pages around the decoder block + tail canary (prod build) and ASan (asan build); accesses inside the block are not judged; one known finding (equivalent back-reference index) is listed in KNOWN_FINDINGS.txt",
             ref="§3 C12")
CHECKS["C02"] = dict(cat="exploration", technique="exhaustive enumeration opcode x operand shape x value grid x engine against an independent reference interpreter",
             text="Every non-control opcode, every compare-and-branch opcode and every legal overflow-insn/overflow-branch pair is executed in every operand placement (register, immediate, memory in 8 addressing forms and 9 memory types, dst/src aliasing, constant-folded forms) "
                  "over the full cross product of a boundary-value grid on the interpreter and on generated code at -O0..-O3; results, flags-as-branches and the bytes of the harness buffer are compared with refinterp, which executes the un-linked IR as MIR.md defines it.",
             note="oracle = core/refinterp.c (my transcription of MIR.md, shares nothing with the library); tuples MIR.md leaves unspecified (division by zero/overflow, over-wide shifts, out-of-range fp->int) are skipped and counted; NaN payloads and the upper half of 32-bit results are not compared",
             ref="§3 C02")
CHECKS["C01"] = dict(cat="exploration", technique="exhaustive enumeration of complete program families x input grids x optimisation levels, generated code compared with the interpreter",
             text="Eleven program families (extension chains, binary chains with boundary constants, compare chains, overflow insn/branch pairs, memory access sequences with input-controlled aliasing and alloca, all CFGs of <=2-3 blocks over jmp/bcc/switch/laddr+jmpi terminators with fuel, "
                  "cold trapping code, calls with live values, fp/long-double chains, register-pressure bodies, pointer-advancing loops) are enumerated completely; every program runs on its whole input grid through MIR_interp and MIR_gen code at -O0..-O3 and results, harness buffers and the external-call log must agree.",
             note="refinterp is used only to skip (program,input) pairs with behaviour MIR.md leaves unspecified and to mark 32-bit results; two known findings (KNOWN_FINDINGS.txt); members of the known non-terminating class are executed once per shard and otherwise skipped (counted in the evidence)",
             ref="§3 C01")
CHECKS["C04"] = dict(cat="exploration", technique="exhaustive enumeration of program families (incl. callee x caller inlining features and branch-rewrite patterns) against an independent interpreter of the un-linked IR, with normal and zero inlining thresholds",
             text="Every program of the C01 families plus the inlining family F9 (alloca kinds x return shapes x parameter/result types x leaf/calling/recursive callees x call/inline x loop x result-to-memory x own alloca x one/two sites x size padding around both thresholds) and the branch-rewrite family F10 "
                  "is executed by refinterp on the un-linked module and by the interpreter and gen -O0..-O3 after MIR_link; the same is repeated with a library built with MIR_MAX_INSNS_FOR_INLINE=MIR_MAX_INSNS_FOR_CALL_INLINE=0.",
             note="oracle = core/refinterp.c executing the IR as written (before MIR_load_module); unspecified behaviour skipped; one known finding shared with C01 (store lowering between overflow insn and branch)",
             ref="§3 C04")
CHECKS["C10"] = dict(cat="exploration", technique="exhaustive enumeration of a module vocabulary (opcode x operand form, item kinds and adjacency pairs, every string byte, boundary immediates, size cases) through MIR_output / MIR_scan_string",
             text="Every case is written with MIR_output, scanned in a fresh context and written again: the two texts must be identical, the two modules must be equal when compared through the API (items, operands, label attachment, data bytes), the writer must return, and executable cases must interpret identically; run on the prod and asan builds.",
             note="vocabulary defined in gen/mirvocab.py; modules after MIR_load_module and non-finite fp immediates (no text syntax) are outside the check", ref="§3 C10")
CHECKS["C11"] = dict(cat="exploration", technique="exhaustive enumeration of the same module vocabulary plus non-finite/payload fp immediates through MIR_write / MIR_read, bit-exact API-level comparison",
             text="Every case is written twice through callbacks and once to a file (all three byte streams must be identical), read back in a fresh context, and compared: MIR_output text, every immediate and data byte bit for bit (NaN payloads, long doubles, strings with NULs), label attachment of lref items, and interpretation results of executable cases.",
             note="sizes from empty modules to 70000 names/labels and multi-buffer compressed images in the thorough tier; prod and asan builds", ref="§3 C11")
CHECKS["C15"] = dict(cat="exploration", technique="exhaustive enumeration opcode x operand position x operand kind (full cross product) against a rule table transcribed from MIR.md",
             text="For every 1-, 2- and 3-operand opcode every combination of 30 operand kinds (registers of each type, each immediate kind, memory of each of 15 types, label, references, string) at every position is built through the API in a fresh context; the error callback must fire exactly when the MIR.md rule table rejects the combination. "
                  "Arity -1/+1 for every opcode and 40 scripted declaration / ret / call-prototype / overflow-branch / switch cases complete the space.",
             note="rule table in checks/c15_illformed.c is independent of insn_descs[]; address-valued operands (refs, strings) in integer positions are counted as unconstrained; va_* and property insns outside the cross product", ref="§3 C15")
CHECKS["C13"] = dict(cat="model_checking", technique="explicit-state BFS over load/load_external/link histories on the real context (state = replayed history), lock-step reference model of the name table and pending list",
             text="All histories up to depth 7 (thorough 8) over load of eight modules (two exporters of function v, two of data w, three importers, a forward+export module and its importer), three external registrations, link, link with resolver and the redefinition permission are executed on a fresh real context; "
                  "after each link every importer linked in that step is interpreted and must run the definition that was latest when the step began to resolve it; error codes for undefined imports and repeated function definitions are compared with the model.",
             note="only importers linked in the current step are judged (the property speaks of the moment the step completes); function-over-external/data redefinition without permission is unconstrained; pending list enters the canonical state from the model", ref="§3 C13")
CHECKS["C14"] = dict(cat="exploration", technique="exhaustive enumeration of item sequences (<=3 items over 42 shapes x named/anonymous) with address/byte inspection after load+link",
             text="Every sequence of one to three data-area items over the alphabet (data of nine element types with 1 or 3 elements, bss of 0/1/7/8/9 bytes, ref to an earlier item, a later item, an import and a function with and without displacement, four lref forms, expr of eight result types), each named or anonymous, is placed between two named sentinels, loaded and linked; "
                  "the harness checks section heads, contiguity (addr[k+1]==addr[k]+size[k]), declared bytes, zeroed bss, ref = target address + disp, expr = value of the expression function, and for lrefs the label address / difference once the function ran, including a jmpi through the stored value, under the interpreter and gen -O2.",
             note="558174 modules in both tiers; the thorough tier also runs 120000 of them on the asan build", ref="§3 C14")
CHECKS["C16"] = dict(cat="model_checking", technique="explicit-state BFS over generation/use histories on the real context (state = replayed history) with invariants checked in every state",
             text="For six representative programs of each program family and each start configuration (interpreter interface, eager generation at link, lazy generation) all histories up to depth 5-6 over gen(f), level changes, output, interpretation, calls through the public address and linking of later modules that call or inline f are executed; "
                  "in every state MIR_output_item(f) must equal the text after a link without generation, f->addr must be unchanged, a repeated MIR_gen must return the same address and every execution must behave as refinterp says the program as written behaves.",
             note="histories that interpret a function before its first generation are outside the property and not explored (they crash the generator: noted in DESIGN.md); thorough tier repeats on the asan build except programs whose inlined callee uses alloca (ASan artefact of the interpreter's bstart/bend)", ref="§3 C16")
CHECKS["C17"] = dict(cat="model_checking", technique="explicit-state BFS over legal API histories on a context with checking allocators (ledger, quarantine, write-protected code pages, --wrap of libc allocator calls)",
             text="All legal histories up to depth 8 (thorough 10) over creating modules by API / scan / binary read / c2mir_compile, load, link with each interface, run, MIR_gen at changing levels, MIR_output and MIR_write are executed on a context created with a checking MIR_alloc and MIR_code_alloc and closed by gen_finish, c2mir_finish, MIR_finish; "
                  "every realloc must quote the block's true size, no block may be freed twice, touched after free or left allocated, no code region may stay mapped, code pages are writable only inside a write window (a store outside faults), and a direct libc allocator call from library code is reported.",
             note="canonical state = legality automaton state + number of live code regions; libc-internal allocations are not judged; thorough tier repeats the BFS on the asan build", ref="§3 C17")
CHECKS["C09"] = dict(cat="exploration", technique="exhaustive grammar enumeration of macro definitions / invocations / #if expressions, c2m -E against gcc -E compared as pp-token sequences",
             text="Every replacement list of up to 3 (thorough 4) tokens over {x,y,#x,#y,##,x##y,A,B,F,G,(,),comma,1,+,__VA_ARGS__} in several macro environments (self reference, mutual recursion, function-like names without call, pasting) with fixed invocations, every parenthesis-balanced invocation of up to 5 (6) tokens against 27 fixed bodies, every #if expression of depth 2 plus reduced depth 3 over all preprocessor operators and boundary leaves, and conditional nests are preprocessed by the real c2m binary and by gcc; token sequences must agree.",
             note="cases on which gcc -std=c11 -pedantic -Wall -Wextra prints any diagnostic, #if expressions with undefined intmax_t behaviour (gen/ppeval.py) and two C11-undefined paste forms are dropped; tokens that c2m -E prints without a separating blank are not judged; #include/#pragma outside the grammar", ref="§3 C09")
CHECKS["C08"] = dict(cat="exploration", technique="exhaustive enumeration of struct/union declarations (<=2, thorough <=3 members over a 30-member alphabet) and of by-value passing positions, c2m against gcc",
             text="For every struct and union with up to 2 (thorough 3) members over scalars, arrays, bit-fields of eight widths incl. three zero-width forms, nested and anonymous aggregates, the c2m-compiled program must print the same sizeof, _Alignof, offsetof of every addressable member and byte image of every bit-field as the gcc-built one; "
                  "every such type of at most 32 bytes is returned from gcc code, passed to gcc code as first argument and behind 5/6 integer and 7/8 double arguments, and passed to / returned from a c2mir callback called by gcc code, under c2m -ei and -eg, with member-wise checks on both sides.",
             note="gcc 12 on this machine is the ABI reference (including its treatment of zero-width bit-fields); three-member types with bit-fields are checked for layout only; #pragma pack and attributes are not generated", ref="§3 C08")
CHECKS["C07"] = dict(cat="exploration", technique="exhaustive enumeration of C expression/conversion/initializer/control-flow grammar families over all arithmetic type pairs and boundary values, every c2m engine against the gcc-built program",
             text="Every binary operator and ?: over every ordered pair of arithmetic types (quick: 8 of 15 types) and 5x5 boundary values in constant and run-time form, every cast pair, unary/++/--/compound assignment, implicit conversions at all five conversion sites, "
                  "literals x suffixes, bit-fields (13 widths x signedness, _Bool), 46 initializer shapes x {static, automatic, run-time valued}, control-flow skeletons, switch label sets, pointer arithmetic by every index type, variadic calls and struct copies of 19 sizes "
                  "must print the same _Generic type tag and value under c2m -ei/-eg -O2/-eb (thorough: all of -ei, -eg -O0..-O3, -el, -eb) as the program built by gcc.",
             note="cases for which gcc prints a UB-relevant diagnostic or the UBSan-instrumented reference reports undefined behaviour are dropped together with their constant/run-time twin; programs stay inside these grammar families (no VLAs, complex, atomics, wide strings, library calls beyond printf/memset)", ref="§3 C07")
CHECKS["C20"] = dict(cat="exploration", technique="exhaustive enumeration of MIR program families; each program translated by the real MIR_module2c, compiled by gcc and run on its whole input grid against MIR_interp",
             text="Every program of the C01 families (integer/fp chains, overflow insns, memory, CFGs with switch/jmpi, calls, block arguments, loops) and of data-section (all sections of up to 3 items over 15 item kinds), constant (40 boundary immediates x 3 uses) and multi-function families "
                  "is translated by MIR_module2c in a watchdogged child (non-termination and crashes are attributed to the program), batches of 400 translations are compiled by gcc (a rejected translation is attributed by compiling it alone), and result, buffer bytes and external-call log of the compiled translation "
                  "must equal those of MIR_interp on every input of the program's grid (quick: gcc -O1; thorough: -O0 and -O2).",
             note="gcc -fwrapv -fno-strict-aliasing is the C compiler; (program,input) pairs with behaviour MIR.md leaves unspecified are skipped via refinterp; multiple-result functions, expr data, lref data and calls passing blocks to native C functions are outside the enumerated families", ref="§3 C20")
CHECKS["C03"] = dict(cat="exploration", technique="exhaustive enumeration of (two-module program, entry-call history) pairs, each history replayed in fresh contexts under all five execution interfaces and compared with MIR_interp",
             text="For every program of 6 edge kinds (direct call, call through a register, through an address stored in a data item, native callback re-entering MIR code, inline, call in a loop) x 8 target kinds (leaf, self recursion, mutual recursion across modules, label address + jmpi, "
                  "switch + loop, native call + callback, all fp branches in a loop, all integer branches in a loop) x 8 signatures (1 int; ints and doubles in registers; stack arguments; narrow ints + float; variadic; blocks in the last integer / vector argument registers) and every sequence of up to 4 (thorough 5) calls over its 3 entry points, the history executed through MIR_interp, the interpreter C interface, "
                  "eager, lazy and lazy basic-block generation (-O0 and -O2; thorough -O0..-O3) must yield the same return values, state data item and native-call log; entry addresses are taken once after linking and used for every later call.",
             note="MIR_interp is the reference side of the comparison; programs stay inside the enumerated alphabet and do not use property insns", ref="§3 C03")
CHECKS["C05"] = dict(cat="exploration", technique="exhaustive enumeration of an index-enumerated prototype space; MIR code calls a gcc-compiled callee generated from the same prototype under the interpreter and every generator level",
             text="For every prototype of the space (argument lists of length <= 3 over 19 kinds incl. all integer widths, f, d, ld and seven block classes/sizes; saturation sweeps 0..8 ints x 0..10 doubles x 3 orderings followed by every kind; every result type and the four two-register result pairs; "
                  "variadic tails of length <= 3 over {i64, d, ld, blk0, blk1, blk2} behind 4 fixed parts; return blocks) the native callee must record exactly the argument values the prototype describes, see an ABI-aligned stack, and MIR code must receive the canned results correctly extended, "
                  "under MIR_interp (ff-call trampolines) and gen -O0..-O3.",
             note="argument values are fixed per position and kind; gcc -O1 is the ABI reference; x86-64 SysV only", ref="§3 C05")
CHECKS["C06"] = dict(cat="exploration", technique="exhaustive enumeration of the same prototype space x 2 callee bodies; a gcc-compiled caller invokes the MIR function through a transparent register-checking assembly thunk under six interfaces",
             text="For every prototype of the C05 space and two bodies (plain; 14 values live across a native call plus an alloca block) the MIR function must record exactly the parameter values the gcc-compiled caller passed (including variadic tails read with va_arg/va_block_arg and return blocks), "
                  "return the canned results, and leave rbx, rbp, r12-r15, rsp, the MXCSR control bits and the x87 control word as they were, under the interpreter C interface, gen -O0..-O3 and lazy generation; alloca memory must be 16-byte aligned and keep its contents across the call.",
             note="the thunk is not re-entrant: the MIR function's own native calls do not go through it; values are fixed per position and kind", ref="§3 C06")
NOT_YET = {}
def main():
    props = [json.loads(l) for l in open(os.path.join(VERIF, "properties.jsonl"))]
    checks, na = [], []
    for p in props:
        pid = p["id"]
        if pid in CHECKS:
            c = CHECKS[pid]
            checks.append(dict(property_id=pid, quick_cmd="./check %s --tier quick" % pid, thorough_cmd="./check %s --tier thorough" % pid,
                               evidence_file="evidence/%s.json" % pid, replay_cmd_template="./check %s --replay {path}" % pid,
                               level_claimed=dict(category=c["cat"], text=c["text"], design_ref=c["ref"]), level_note=c["note"], technique=c["technique"]))
        else:
            na.append(dict(property_id=pid, reason=NOT_YET.get(pid, "check designed in DESIGN.md but not built yet; not claimed until it runs clean on the unchanged tree")))
    m = dict(version=1, setup_cmd="python3 core/setup.py",
             hooks=dict(guard="MIR_VERIF", enable="checks compile /repo sources themselves with -DMIR_VERIF (core/build.py); no hook is currently present in /repo",
                        baseline_off_cmd="cd /repo && cmake -G Ninja -B _build >/dev/null && (cmake --build _build -- -k 0 || true) && ctest --test-dir _build -j8 --timeout 900",
                        source_commits=[], add_only=True),
             engines=[dict(name="vp", path="core/", serves_properties=sorted(CHECKS), kind_free_text="hand-written exhaustive enumerator / BFS explorer over the real code (core/vp.c, core/bfs.h, core/runner.py)")],
             checks=checks, not_applicable=na,
             notes="All checks rebuild the library from /repo's working tree through core/build.py (content-hashed cache under /verif/build).")
    json.dump(m, open(os.path.join(VERIF, "MANIFEST.json"), "w"), indent=1)
if __name__ == "__main__":
    main()
