#!/usr/bin/env python3
import json, sys, glob, os
sys.path.insert(0, "/opt/veriftools/pyvenv/lib/python3.11/site-packages")
try:
    import jsonschema
except ImportError:
    import subprocess
    sys.exit(subprocess.call(["python3-vt", __file__] + sys.argv[1:]))
V = os.path.dirname(os.path.dirname(os.path.abspath(__file__)))
jsonschema.validate(json.load(open(V + "/MANIFEST.json")), json.load(open("/root/.vp/MANIFEST.schema.json")))
es = json.load(open("/root/.vp/EVIDENCE.schema.json"))
for f in sorted(glob.glob(V + "/evidence/*.json")):
    jsonschema.validate(json.load(open(f)), es)
    print("ok", os.path.basename(f))
print("manifest ok")
