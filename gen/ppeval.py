"""Reference evaluator for #if expressions (C11 6.10.1: intmax_t / uintmax_t arithmetic).  Used only to drop
expressions with undefined behaviour (division overflow/by zero, out-of-range shifts, signed overflow) from C09."""
import re
TOK = re.compile(r"\s*(defined|[A-Za-z_]\w*|0[xX][0-9a-fA-F]+[uUlL]*|\d+[uUlL]*|'(?:\\.|[^'\\])+'|<<|>>|<=|>=|==|!=|&&|\|\||[-+*/%<>&^|!~?:()])")
M = 1 << 64
class UB(Exception): pass

def ev(expr, defined=("DEF1",), values=None):
    values = values or {"DEF1": (3, False)}
    toks = TOK.findall(expr); pos = [0]
    def peek(): return toks[pos[0]] if pos[0] < len(toks) else None
    def nxt(): t = peek(); pos[0] += 1; return t
    def mk(v, u):
        if u: return (v % M, True)
        if not (-(1 << 63) <= v < (1 << 63)): raise UB("signed overflow")
        return (v, False)
    def prim():
        t = nxt()
        if t == "(": r = cond(); nxt(); return r
        if t == "defined":
            if peek() == "(": nxt(); n = nxt(); nxt()
            else: n = nxt()
            return (1 if n in defined else 0, False)
        if t[0] == "'":
            body = t[1:-1]
            if body.startswith("\\"):
                c = int(body[1:], 8) if body[1].isdigit() else {"n": 10, "t": 9, "0": 0, "\\": 92, "'": 39}.get(body[1], ord(body[1]))
                if c >= 128: c -= 256
            else: c = ord(body)
            return (c, False)
        if t[0].isdigit():
            u = "u" in t.lower(); d = t.rstrip("uUlL"); v = int(d, 0) if not (len(d) > 1 and d[0] == "0" and d[1] not in "xX") else int(d, 8)
            if not u and v >= (1 << 63): u = True
            return (v % M, True) if u else (v, False)
        if t in values: return values[t]
        return (0, False)  # remaining identifiers are 0
    def unary():
        t = peek()
        if t in ("-", "+", "~", "!"):
            nxt(); v, u = unary()
            if t == "-": return mk(-v, u)
            if t == "+": return (v, u)
            if t == "~": return mk(~v, u)
            return (0 if v else 1, False)
        return prim()
    PREC = [("*", "/", "%"), ("+", "-"), ("<<", ">>"), ("<", ">", "<=", ">="), ("==", "!="), ("&",), ("^",), ("|",), ("&&",), ("||",)]
    def binary(level):
        if level < 0: return unary()
        l = binary(level - 1)
        while peek() in PREC[level]:
            o = nxt(); r = binary(level - 1); l = apply(o, l, r)
        return l
    def apply(o, l, r):
        (a, ua), (b, ub) = l, r
        if o in ("&&", "||"): return ((1 if (a and b) else 0) if o == "&&" else (1 if (a or b) else 0), False)
        if o in ("<<", ">>"):
            if b < 0 or b >= 64 or (ub and b >= 64): raise UB("shift count")
            if o == "<<":
                if not ua and (a < 0 or (a << b) >= (1 << 63)): raise UB("left shift of negative / overflow")
                return mk(a << b, ua)
            return mk(a >> b, ua) if (ua or a >= 0) else mk(a >> b, False)
        u = ua or ub
        if u: a %= M; b %= M
        if o in ("<", ">", "<=", ">=", "==", "!="):
            return (int({"<": a < b, ">": a > b, "<=": a <= b, ">=": a >= b, "==": a == b, "!=": a != b}[o]), False)
        if o in ("/", "%"):
            if b == 0: raise UB("division by zero")
            if not u and a == -(1 << 63) and b == -1: raise UB("division overflow")
            q = abs(a) // abs(b) * (1 if (a < 0) == (b < 0) else -1)
            return mk(q if o == "/" else a - q * b, u)
        return mk({"*": a * b, "+": a + b, "-": a - b, "&": a & b, "^": a ^ b, "|": a | b}[o], u)
    def cond():
        c = binary(len(PREC) - 1)
        if peek() == "?":
            nxt(); t = cond(); nxt(); e = cond()
            u = t[1] or e[1]; v = t if c[0] else e
            return mk(v[0], u)
        return c
    return cond()

def undefined_p(expr):
    """True if the reference evaluation meets undefined behaviour (both arms of && || ?: are evaluated: conservative)"""
    try:
        ev(expr); return False
    except UB:
        return True
    except Exception:
        return True

if __name__ == "__main__":
    import sys
    for e in sys.argv[1:]:
        try: print(e, "->", ev(e))
        except UB as x: print(e, "-> UB:", x)
