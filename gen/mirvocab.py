"""Vocabulary of MIR modules for the round-trip checks C10/C11 (DESIGN.md §3): one module per case.
Output: a cases file; record =  '=====CASE <descriptor>[ ## key=value ...]\\n<module text>'.
Everything is a deterministic enumeration; 'size' families are parameter grids."""
import itertools, struct

INT2 = ["mov", "ext8", "ext16", "ext32", "uext8", "uext16", "uext32", "neg", "negs"]
INT3 = ["add", "adds", "sub", "subs", "mul", "muls", "div", "divs", "udiv", "udivs", "mod", "mods", "umod", "umods", "and", "ands", "or", "ors",
        "xor", "xors", "lsh", "lshs", "rsh", "rshs", "ursh", "urshs", "eq", "eqs", "ne", "nes", "lt", "lts", "ult", "ults", "le", "les", "ule", "ules",
        "gt", "gts", "ugt", "ugts", "ge", "ges", "uge", "uges", "addo", "addos", "subo", "subos", "mulo", "mulos", "umulo", "umulos"]
FP = {"f": "f", "d": "d", "ld": "ld"}
FP3 = ["add", "sub", "mul", "div"]
FPCMP = ["eq", "ne", "lt", "le", "gt", "ge"]
BR3I = ["beq", "beqs", "bne", "bnes", "blt", "blts", "ublt", "ublts", "ble", "bles", "uble", "ubles", "bgt", "bgts", "ubgt", "ubgts", "bge", "bges", "ubge", "ubges"]
ITYPES = ["i8", "u8", "i16", "u16", "i32", "u32", "i64", "u64", "p"]

MEMFORMS = ["{t}:8(m)", "{t}:(m)", "{t}:(m,c)", "{t}:(m,c,2)", "{t}:16(m,c,8)", "{t}:-8(m,c,4)", "{t}:1024", "{t}:(c)",
            "{t}:8(m):al1", "{t}:8(m)::na1", "{t}:8(m):al1:na2", "{t}:(m,c,8):al2:na1"]
IMMS = [0, 1, -1, 127, 128, 255, 256, -128, -129, 32767, 32768, 65535, 65536, 2**31 - 1, 2**31, 2**32 - 1, 2**32, -2**31, -2**31 - 1,
        2**55 - 1, 2**55, 2**56 - 1, 2**56, 2**63 - 1, -2**63, -2**55, -2**56 - 1, 2**47, 2**48 - 1, 2**39, 2**40 - 1, 2**23, 2**24 - 1, 2**15 - 1, 2**7 - 1]
FIMM = ["0.0", "1.0", "-1.5", "0.1", "3.4028234663852886e+38", "1.1754943508222875e-38", "1.401298464324817e-45", "16777217.0", "1e10", "-0.0"]
DIMM = FIMM + ["1.7976931348623157e+308", "2.2250738585072014e-308", "4.9406564584124654e-324", "9007199254740993.0", "0.30000000000000004"]


def func(body, locals_="i64:r, i64:r1, i64:r2, f:f1, f:f2, d:d1, d:d2, ld:l1, ld:l2", sig="i64, i64:a, i64:b, i64:c, p:m", name="f", ret="  ret r\n"):
    return "%s: func %s\n  local %s\n%s%sendfunc\n" % (name, sig, locals_, body, ret)


def module(items, name="m"):
    return "%s: module\n%sendmodule\n" % (name, items)


def cases(thorough):
    out = []

    def add(desc, text, **kw):
        hdr = "=====CASE " + desc + "".join(" ## %s=%s" % kv for kv in kw.items())
        out.append(hdr + "\n" + text)

    # ---- instruction vocabulary: every opcode x operand forms -------------------------------------------------
    for op in INT2:
        add("insn %s r,r" % op, module(func("  mov r1, a\n  %s r, r1\n" % op)), run=1)
        for mf in MEMFORMS:
            for t in (ITYPES if mf == MEMFORMS[0] else ["i64", "u8"]):
                m = mf.format(t=t)
                add("insn %s r,%s" % (op, m), module(func("  %s r, %s\n" % (op, m))), run=0)
                add("insn %s %s,r" % (op, m), module(func("  %s %s, a\n  mov r, 0\n" % (op, m))), run=0)
        for v in IMMS:
            add("insn %s r,imm %d" % (op, v), module(func("  %s r, %d\n" % (op, v))), run=1)
    for op in INT3:
        bo = ""
        if op.endswith("o") or op.endswith("os"):
            bo = "  %s L1\nL1:\n" % ("ubo" if op.startswith("umul") else "bno")
        add("insn %s r,r,r" % op, module(func("  %s r, a, b\n%s" % (op, bo))), run=0 if "div" in op or "mod" in op or "sh" in op else 1)
        add("insn %s r,r,imm" % op, module(func("  %s r, a, 3\n%s" % (op, bo))), run=1)
        add("insn %s r,imm,r" % op, module(func("  %s r, -7, b\n%s" % (op, bo))), run=0)
        for mf in MEMFORMS[:6] + MEMFORMS[8:]:
            m = mf.format(t="i32")
            add("insn %s r,r,%s" % (op, m), module(func("  %s r, a, %s\n%s" % (op, m, bo))), run=0)
            add("insn %s %s,r,r" % (op, m), module(func("  %s %s, a, b\n%s  mov r, 0\n" % (op, m, bo))), run=0)
    for p, t in FP.items():
        mv = p + "mov"
        reg1, reg2 = {"f": ("f1", "f2"), "d": ("d1", "d2"), "ld": ("l1", "l2")}[p]
        suf = {"f": "f", "d": "", "ld": "L"}[p]
        imms = FIMM if p == "f" else DIMM
        for v in imms:
            add("insn %s r,imm %s" % (mv, v), module(func("  %s %s, %s%s\n  mov r, 0\n" % (mv, reg1, v, suf))), run=1)
        for mf in MEMFORMS:
            m = mf.format(t=t)
            add("insn %s r,%s" % (mv, m), module(func("  %s %s, %s\n  mov r, 0\n" % (mv, reg1, m))), run=0)
            add("insn %s %s,r" % (mv, m), module(func("  %s %s, 1.5%s\n  %s %s, %s\n  mov r, 0\n" % (mv, reg1, suf, mv, m, reg1))), run=0)
        for o in FP3:
            add("insn %s%s" % (p, o), module(func("  %s %s, 2.5%s\n  %s%s %s, %s, 0.5%s\n  mov r, 0\n" % (mv, reg1, suf, p, o, reg2, reg1, suf))), run=1)
        for o in FPCMP:
            add("insn %s%s" % (p, o), module(func("  %s %s, 2.5%s\n  %s%s r, %s, 0.5%s\n" % (mv, reg1, suf, p, o, reg1, suf))), run=1)
            add("insn %sb%s" % (p, o), module(func("  %s %s, 2.5%s\n  mov r, 1\n  %sb%s L9, %s, 0.5%s\n  mov r, 2\nL9:\n" % (mv, reg1, suf, p, o, reg1, suf))), run=1)
        add("insn %sneg" % p, module(func("  %s %s, 2.5%s\n  %sneg %s, %s\n  mov r, 0\n" % (mv, reg1, suf, p, reg2, reg1))), run=1)
        add("insn i2%s ui2%s %s2i" % (p, p, p), module(func("  i2%s %s, a\n  ui2%s %s, b\n  %s2i r, %s\n" % (p, reg1, p, reg2, p, reg1))), run=1)
    add("insn fp conversions", module(func("  i2d d1, a\n  d2f f1, d1\n  f2d d2, f1\n  d2ld l1, d2\n  ld2d d1, l1\n  ld2f f2, l1\n  f2ld l2, f2\n  d2i r, d1\n")), run=1)
    for op in BR3I:
        add("insn %s" % op, module(func("  mov r, 1\n  %s L9, a, b\n  mov r, 2\nL9:\n" % op)), run=1)
        add("insn %s imm" % op, module(func("  mov r, 1\n  %s L9, a, 4294967296\n  mov r, 2\nL9:\n" % op)), run=1)
    for op in ["bt", "bts", "bf", "bfs"]:
        add("insn %s" % op, module(func("  mov r, 1\n  %s L9, a\n  mov r, 2\nL9:\n" % op)), run=1)
    add("insn jmp/laddr/jmpi/switch", module(func("  mov r, 0\n  laddr r1, L3\n  and r2, a, 1\n  switch r2, L1, L2\nL1:\n  add r, r, 1\n  jmpi r1\nL2:\n  add r, r, 2\n  jmp L3\nL3:\n  add r, r, 4\n")), run=1)
    add("insn laddr to mem", module(func("  laddr i64:16(m), L3\n  mov r1, i64:16(m)\n  jmpi r1\nL3:\n  mov r, 4\n")), run=0)
    add("insn alloca/bstart/bend", module(func("  bstart r1\n  alloca r2, 32\n  mov i64:8(r2), a\n  mov r, i64:8(r2)\n  bend r1\n  alloca r2, c\n")), run=0)
    add("insn addr family", module(func("  mov r1, a\n  addr r2, r1\n  addr8 r2, r1\n  addr16 r2, r1\n  addr32 r2, r1\n  mov r, i64:(r2)\n")), run=1)
    # calls: block / rblk args, multiple results, varargs, inline
    protos = ("p0: proto\np1: proto i64, i64:x\np2: proto i64, d, i8:a, u16:b, f:c, ld:d, p:e\np3: proto blk:24(s), blk1:8(t), blk2:16(u), blk3:16(v), blk4:16(w), rblk:40(r)\n"
              "p4: proto i64, i64:fmt, ...\np5: proto f, ld, i32, u8\np6: proto ...\n")
    add("item protos all kinds", module(protos), run=0)
    callee = "g: func i64, i64:x\n  ret x\nendfunc\ng2: func i64, d, i64:x\n  ret x, 1.5\nendfunc\ngb: func i64, blk:24(s), rblk:40(rr)\n  mov i64:(rr), i64:8(s)\n  ret 3\nendfunc\n"
    add("insn call direct/indirect/inline/multi-result/blocks",
        module("import ext1\n" + protos + "pg2: proto i64, d, i64:x\npgb: proto i64, blk:24(s), rblk:40(rr)\n" + callee
               + func("  call p1, g, r, a\n  mov r1, g\n  call p1, r1, r2, r\n  inline p1, g, r, r2\n  call pg2, g2, r, d1, a\n  call pgb, gb, r2, blk:24(m), rblk:40(m)\n  call p1, ext1, r1, 5\n")), run=0)
    add("insn va_*", module("vf: func i64, i64:n, ...\n  local i64:va, i64:r, i64:p2\n  alloca va, 32\n  va_start va\n  va_arg p2, va, i64:0\n  mov r, i64:(p2)\n  va_block_arg m2, va, 16, 1\n  va_end va\n  ret r\nendfunc\n".replace("m2", "p2")), run=0)
    add("api: data item of pointer type", "", run=0, api="pdata")
    add("api: unsigned integer operands up to 2^64-1", "", run=0, api="uintop")
    add("api: string operand without a trailing NUL", "", run=0, api="strnonul")
    add("insn jcall/jret", module("p0: proto\nj: func\n  local i64:ra\n  jret ra\nendfunc\nk: func\n  jcall p0, j\n  ret\nendfunc\n"), run=0)
    add("insn property", module(func("  prset r, 5\n  prbeq L9, r, 5\n  prbne L9, r, 3\nL9:\n  mov r, 1\n")), run=0)
    add("func globals tied to hard regs", module("f: func i64, i64:a\n  local i64:r\n  global i64:g1:rbx, d:g2:xmm12, i64:g3:r12\n  mov g1, a\n  mov r, g1\n  ret r\nendfunc\n"), run=0)
    add("func many results", module("f: func i64, i64, d, f, i64:a\n  ret a, 2, 1.5, 2.5f\nendfunc\n"), run=0)
    add("func all arg types", module("f: func i8:a, u8:b, i16:c, u16:d, i32:e, u32:g, i64:h, u64:i, p:j, f:k, d:l, ld:m, blk:8(n), blk1:16(o), blk2:24(q), blk3:16(s), blk4:16(t), rblk:32(u)\n  ret\nendfunc\n"), run=0)
    add("func 40 locals", module("f: func i64\n  local " + ", ".join("i64:v%d" % i for i in range(20)) + ", " + ", ".join("d:w%d" % i for i in range(20)) + "\n  mov v19, 7\n  ret v19\nendfunc\n"), run=0)
    # ---- item vocabulary -------------------------------------------------------------------------------------
    for order in itertools.permutations(["export g\n", "forward g\n", callee.split("g2:")[0]]):
        add("item order " + "|".join(o.split()[0] for o in order), module("".join(order)), run=0)
    add("item import used + unused", module("import a1, a2\nimport a3\n" + "p1: proto i64, i64:x\n" + func("  call p1, a1, r, 1\n")), run=0)
    DT = {"i8": [0, 1, -128], "u8": [0, 1, 255], "i16": [0, 1, -32768], "u16": [0, 65535, 7], "i32": [0, -1, 2**31 - 1], "u32": [0, 2**32 - 1, 9],
          "i64": [0, -2**63, 2**63 - 1], "u64": [0, 2**64 - 1, 2**63], "p": [0, 1, 2**40]}
    for t, vs in DT.items():
        for n in (1, 3):
            add("item data %s x%d named" % (t, n), module("dn: %s %s\n" % (t, ", ".join(str(v) for v in vs[:n]))), run=0)
            add("item data %s x%d anonymous" % (t, n), module("dn: i64 1\n%s %s\n" % (t, ", ".join(str(v) for v in vs[:n]))), run=0)
    for t, vs, suf in (("f", FIMM, "f"), ("d", DIMM, ""), ("ld", DIMM, "L")):
        for n in (1, 3):
            add("item data %s x%d" % (t, n), module("dn: %s %s\n" % (t, ", ".join(v + suf for v in vs[2:2 + n]))), run=0)
        for v in vs:
            add("item data %s %s" % (t, v), module("dn: %s %s%s\n" % (t, v, suf)), run=0)
    for n in (0, 1, 7, 8, 9, 4096):
        add("item bss %d" % n, module("b1: bss %d\nbss %d\n" % (n, n)), run=0)
    base = "d1: i64 1, 2\nb1: bss 16\nimport ext1\nforward lat\n" + callee.split("g2:")[0]
    for tgt in ("d1", "b1", "g", "ext1", "lat"):
        for disp in (0, 1, -1, 2**40):
            add("item ref %s disp %d" % (tgt, disp), module(base + "r1: ref %s, %d\nref %s, %d\nlat: i64 5\n" % (tgt, disp, tgt, disp)), run=0)
    lf = func("  mov r, 0\nL1:\n  add r, r, 1\nL2:\n  add r, r, 2\n")
    for l in ("L1", "L1, L2", "L1, 8", "L1, L2, -16", "L2, L1, 1099511627776"):
        add("item lref " + l, module(lf + "lr: lref %s\nlref %s\n" % (l, l)), run=1)
    add("item lref before func", module("lr: lref L1\n" + lf), run=1)
    for rt, val in (("i64", "5"), ("i32", "-7"), ("u8", "200"), ("i8", "-3"), ("i16", "300"), ("u16", "65535"), ("u32", "4000000000"), ("p", "64"), ("f", "1.5f"), ("d", "2.5"), ("ld", "3.5L")):
        ef = "ex: func %s\n  ret %s\nendfunc\n" % (rt, val)
        add("item expr %s" % rt, module(ef + "x1: expr ex\nexpr ex\n"), run=0)
        add("item expr %s then func" % rt, module(ef + "x1: expr ex\n" + func("  mov r, 1\n")), run=1)
    # strings: every single byte, selected pairs, with / without trailing NUL
    def esc(bs):
        return "".join("\\%03o" % b if b < 32 or b >= 127 or b in (34, 92) else chr(b) for b in bs)
    p1 = "p1: proto i64, p:s\nimport ext1\n"
    for b in range(256):
        if b == 0:
            continue
        add("string byte %d" % b, module("s1: string \"%s\"\n" % esc([b]) + p1 + func("  call p1, ext1, r, \"a%sb\"\n" % esc([b]))), run=0)
    sp = [92, 34, 48, 55, 56, 10, 0x80, 0xff, 9, 32]
    for a, b in itertools.product(sp, sp):
        add("string pair %d,%d" % (a, b), module("s1: string \"%s\"\n" % esc([a, b]) + p1 + func("  call p1, ext1, r, \"%s\"\n" % esc([a, b]))), run=0)
    # a byte printed as an escape followed by characters that could extend the escape (octal digits), for every control byte
    for a in list(range(1, 32)) + [127, 128, 255]:
        for tail in ([48], [55], [56], [57, 57], [50, 51], [97]):
            add("string escape-then-digits %d,%s" % (a, tail), module("s1: string \"%s\"\n" % esc([107, a] + tail + [122]) + p1 + func("  call p1, ext1, r, \"%s\"\n" % esc([a] + tail))), run=0)
    add("string empty", module("s1: string \"\"\n" + p1 + func("  call p1, ext1, r, \"\"\n")), run=0)
    add("string as u8 data with and without NUL", module("s1: u8 97, 98, 0\ns2: u8 97, 98\ns3: u8 0\ns4: u8 97, 0, 98, 0\n"), run=0)
    add("string embedded NUL", module("s1: string \"a\\000b\"\n" + p1 + func("  call p1, ext1, r, \"a\\000b\"\n")), run=0)
    # integer immediates in every position class
    for v in IMMS + [2**64 - 1, 2**63]:
        add("imm uint/int %d" % v, module(func("  mov r, %d\n  mov i64:%d, r\n  add r, r, %d\n" % (v, v if abs(v) < 2**63 else 0, v if v < 2**63 else 1))), run=0)
        if -2**63 <= v < 2**63:
            add("disp %d" % v, module(func("  mov r, i64:%d(m)\n  mov r1, i8:%d(m,c,2)\n" % (v, v))), run=0)
    # adjacency of item kinds (pairs)
    kinds = {"data": "i64 4\n", "ndata": "nd%d: i32 1\n", "bss": "bss 3\n", "nbss": "nb%d: bss 3\n", "ref": "ref gg, 4\n", "nref": "nr%d: ref gg, 0\n", "expr": "expr ex\n",
             "lref": "lref LL\n", "proto": "pp%d: proto i64\n", "func": "ff%d: func\n  ret\nendfunc\n", "import": "import ii%d\n", "export": "export gg\n", "forward": "forward gg\n", "string": "string \"x\"\n"}
    pre = "gg: func i64\n  local i64:r\n  mov r, 1\nLL:\n  ret r\nendfunc\nex: func i64\n  ret 9\nendfunc\n"
    for (ka, ta), (kb, tb) in itertools.product(kinds.items(), kinds.items()):
        add("adjacent %s,%s" % (ka, kb), module(pre + (ta % 1 if "%d" in ta else ta) + (tb % 2 if "%d" in tb else tb)), run=0)
    # several modules in one context
    add("two modules cross reference", module("export g\n" + callee.split("g2:")[0], "m1") + module("import g\np1: proto i64, i64:x\n" + func("  call p1, g, r, a\n"), "m2"), run=1)
    add("empty module", module(""), run=0)
    add("no module at all", "", run=0)
    # ---- size cases ----------------------------------------------------------------------------------------
    sizes = [300, 70000] if thorough else [300]
    for n in sizes:
        body = "".join("  mov v%d, %d\n" % (i, i) for i in range(n))
        add("size %d distinct registers" % n, module("f: func i64\n  local " + ", ".join("i64:v%d" % i for i in range(n)) + "\n" + body + "  ret v0\nendfunc\n"), run=0)
        body = "".join("  beq Lx%d, a, %d\nLx%d:\n" % (i, i, i) for i in range(n))
        add("size %d labels" % n, module(func("  mov r, 0\n" + body)), run=0)
        add("size %d items" % n, module("".join("dd%d: i64 %d\n" % (i, i) for i in range(n))), run=0)
        add("size %d strings" % n, module("p1: proto i64, p:s\nimport ext1\n" + func("".join("  call p1, ext1, r, \"str%d\"\n" % i for i in range(n)))), run=0)
    for nbuf in ([1, 2, 5] if thorough else [1]):
        n = nbuf * (1 << 18) // 9 + 10
        add("size binary image ~%d compression buffers" % nbuf, module("big: i64 " + ", ".join(str((i * 2654435761) % (2**63)) for i in range(n)) + "\n"), run=0)
    # ---- non-finite / payload floats (binary round trip only: text has no syntax for them) ------------------
    specials = [("inf", struct.pack("<f", float("inf")).hex(), struct.pack("<d", float("inf")).hex(), "0000000000000080ff7f"),
                ("-inf", struct.pack("<f", float("-inf")).hex(), struct.pack("<d", float("-inf")).hex(), "0000000000000080ffff"),
                ("qnan", "0000c07f", "000000000000f87f", "00000000000000c0ff7f"),
                ("nan payload", "3412c17f", "efcdab8967452bf97f"[:16], "efcdab89674523c1ff7f"),
                ("snan", "0100807f", "010000000000f07f", "01000000000000800ff7f"[:20]),
                ("-0", "00000080", "0000000000000080", "00000000000000000080"),
                ("ld pseudo-denormal", "00000000", "0000000000000000", "00000000000000800000"),
                ("ld unnormal", "00000000", "0000000000000000", "0000000000000040ff3f")]
    for nm, fb, db, lb in specials:
        text = module(func("  fmov f1, 12345.5f\n  dmov d1, 12345.5\n  ldmov l1, 12345.5L\n  mov r, 0\n") + "sd1: f 12345.5f\nsd2: d 12345.5\nsd3: ld 12345.5L\n")
        add("special fp " + nm, text, run=0, binary_only=1, fbits=fb, dbits=db, ldbits=lb)
    # ---- memory operands carrying alias and nonalias names in every combination: the driver also checks the names read from the text against these ----
    for al, nal in (("a", ""), ("", "n1"), ("a", "n1"), ("tint", "na2")):
        suffix = (":" + al if al else "") + ("::" + nal if nal and not al else (":" + nal if nal else ""))
        add("alias names [%s] [%s]" % (al, nal), module(func("  mov r, i64:8(m)%s\n  mov i64:16(m)%s, r\n  add r, r, u8:(m, c, 2)%s\n" % (suffix, suffix, suffix))), run=0, alias=al or "-", nonalias=nal or "-")
    # ---- integer bit patterns the scanner cannot be trusted to produce from text: patched into the scanned module (immediates, i64/u64/p data), then written and re-read ----
    for v in [2**63, 2**63 + 1, 2**64 - 1, 2**63 - 1, 0xffffffff80000000, 2**32, 2**31, 0x8000000080000000, 10**19, 1, 0]:
        text = module(func("  mov r, 1234567\n  add r, r, 1234567\n  mov r1, i64:1234567(m)\n") + "si1: i64 1234567\nsi2: u64 1234567, 5\nsi3: p 1234567\nsi4: i32 7\n")
        add("special int %#x" % v, text, run=0, ibits=struct.pack("<Q", v).hex())
    return out


if __name__ == "__main__":
    import sys
    cs = cases(len(sys.argv) > 2 and sys.argv[2] == "thorough")
    with open(sys.argv[1], "w", encoding="latin-1") as f:
        f.write("\n".join(cs))
        f.write("\n=====END\n")
    print(len(cs))
