"""C12 - compression layer: exhaustive round trip + exhaustive single-fault enumeration + crafted streams."""
from core import build, runner

def run(tier):
    rep = runner.Report("C12", tier, "fault_enumeration")
    srcs = ["checks/c12_reduce.c", "core/vp.c"]
    exe = build.link_driver("c12", "prod", srcs, tus=(), driver_opt="-O2")
    res = runner.run_driver(exe, tier, "C12", case_timeout=600, deadline=3000 if tier == "thorough" else 600)
    rep.add_driver_result(res, "guard")
    exa = build.link_driver("c12", "asan", srcs, tus=())
    resa = runner.run_driver(exa, tier, "C12", case_timeout=600, deadline=1200 if tier == "thorough" else 300)
    rep.add_driver_result(resa, "asan")
    st, sa = res["stats"], resa["stats"]
    rep.coverage = dict(
        evaluations=st.get("decoder_runs", 0) + sa.get("decoder_runs", 0),
        distinct_nontrivial=res["nontrivial"],
        rule="cases = every string over {a,b} / {a,b,NUL} / {a,b,NUL,0xff} up to the tier's length, boundary-family inputs, crafted element sequences; "
             "evaluations = decoder runs (round trips + every truncation, every 1-byte extension, every single-byte substitution of the encodings); "
             "non-trivial = input whose encoding contains a back reference (shorter than input), boundary inputs and crafted streams",
        input_cases=res["done"], small_inputs=st.get("small_roundtrips", 0), boundary_inputs=st.get("boundary_roundtrips", 0),
        crafted_streams=st.get("crafted_streams", 0), distinct_encodings=len(res["outcomes"]),
        asan_decoder_runs=sa.get("decoder_runs", 0), asan_input_cases=resa["done"],
        samples=res["samples"][:6] + ["small k=2 input=\"aaaaaaaaaaaa\" (+ all its single faults)"],
        exhaustive=res["exhaustive"] and resa["exhaustive"])
    rep.assumptions = ["memory-safety oracle: guard pages around the decoder's single heap block + tail-padding canary (prod build), ASan (asan build); accesses that stay inside the block are not judged",
                       "uninitialised heap memory is modelled as 0xFF bytes"]
    return rep.finish()
