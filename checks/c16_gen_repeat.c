/* C16 - code generation leaves the MIR program intact and can be repeated.
   BFS over histories of {gen(f), set level, output(f), interp(f,x), call(f->addr,x), link a later module
   that calls / inlines f} per representative program and start configuration (interp / eager gen / lazy gen).
   State = replayed history; canonical state = (f's text unchanged?, generated?, modules linked later, level).
   DESIGN.md §3 C16. */
#include "vp.h"
#include "bfs.h"
#include "mirh.h"
#include "progfam.h"
#include <stdlib.h>
#include <stdarg.h>

typedef struct { int fam; uint64_t idx; } rep;
static rep REPS[200]; static int n_reps;
static const char *MORE_CALL = "nc: module\nimport f\npf: proto i64, i64:a, i64:b, p:m, p:q, d:x, d:y\nexport gc\ngc: func i64, i64:a, i64:b, p:m, p:q, d:x, d:y\n local i64:r, i64:t, i64:u\n call pf, f, r, a, b, m, q, x, y\n add r, r, 1\n mov t, a\n"
  /* a long tail (more program points than any f of the families) whose value cancels out in a way the optimizer does not see (no reassociation):
     a function generated later at a higher level needs longer allocator tables than the ones before it */
  " add t, t, 1\n add t, t, 1\n add t, t, 1\n add t, t, 1\n add t, t, 1\n add t, t, 1\n add t, t, 1\n add t, t, 1\n add t, t, 1\n add t, t, 1\n add t, t, 1\n add t, t, 1\n add t, t, 1\n add t, t, 1\n add t, t, 1\n add t, t, 1\n add t, t, 1\n add t, t, 1\n add t, t, 1\n add t, t, 1\n"
  " add t, t, 1\n add t, t, 1\n add t, t, 1\n add t, t, 1\n add t, t, 1\n add t, t, 1\n add t, t, 1\n add t, t, 1\n add t, t, 1\n add t, t, 1\n add t, t, 1\n add t, t, 1\n add t, t, 1\n add t, t, 1\n add t, t, 1\n add t, t, 1\n add t, t, 1\n add t, t, 1\n add t, t, 1\n add t, t, 1\n"
  " add u, a, 40\n sub t, t, u\n add r, r, t\n ret r\nendfunc\nendmodule\n";
static const char *MORE_INL = "ni: module\nimport f\npf: proto i64, i64:a, i64:b, p:m, p:q, d:x, d:y\nexport gi\ngi: func i64, i64:a, i64:b, p:m, p:q, d:x, d:y\n local i64:r\n inline pf, f, r, a, b, m, q, x, y\n add r, r, 2\n ret r\nendfunc\nendmodule\n";
enum { O_GEN, O_LEVEL0, O_LEVEL3, O_OUTPUT, O_INTERP, O_CALL, O_MORE_CALL, O_MORE_INL, NOPS };
static const char *ONAME[] = {"gen(f)", "level(0)", "level(3)", "output(f)", "interp(f)", "call(f->addr)", "link(module calling f)", "link(module inlining f)"};
static const char *SNAME[] = {"interp-interface", "eager-gen", "lazy-gen"};
typedef struct { int rep, start; } cfg;
static cfg CFGS[700]; static int n_cfgs, depth;

/* per-case data shared by all replays */
static char PROG[70000]; static const family *FAM; static uint64_t FIDX;
static char *REF_TEXT; static size_t REF_TEXT_LEN;          /* text of f after MIR_link without any generation */
typedef struct { int ok; int low32; int64_t ret; uint64_t mem, log; } robs;
static robs EXPECT[4]; static int n_inputs;                  /* reference behaviour of f on a few inputs */

typedef struct { mh_ctx mc; cfg c; MIR_item_t f; int level, generated, gen_level, more_call, more_inl, dead, step_in; void *gen_addr; void *addr0; } world;

static void set_input (pinput in, mh_args *a) {
  memset (a, 0, sizeof *a); mh_mem_reset (); mh_log_reset ();
  a->ni = 4; a->i[0] = in.a; a->i[1] = in.b; a->i[2] = (int64_t) (intptr_t) mh_buf[0]; a->i[3] = in.qk < 0 ? (int64_t) (intptr_t) mh_buf[1] : (int64_t) (intptr_t) (mh_buf[0] + in.qk);
  a->nd = 2; a->d[0] = in.x; a->d[1] = in.y;
}
static uint64_t mem_obs (void) { uint8_t snap[2][MH_BUF]; memcpy (snap, mh_buf, sizeof snap); if (FAM->mask) FAM->mask (FIDX, snap[0]); return vp_hash_bytes (vp_hash_bytes (5, snap, sizeof snap), mh_gbuf, MH_BUF); }
/* text of the function and of every data item of its module (label reference tables belong to the function's IR) */
static char *item_text (mh_ctx *mc, MIR_item_t it, size_t *len) {
  char *b = NULL; FILE *f = open_memstream (&b, len);
  for (MIR_item_t x = DLIST_HEAD (MIR_item_t, it->module->items); x; x = DLIST_NEXT (MIR_item_t, x))
    if (x == it || x->item_type == MIR_lref_data_item || x->item_type == MIR_ref_data_item || x->item_type == MIR_data_item) MIR_output_item (mc->ctx, f, x);
  fclose (f); return b; }
/* an extra program outside the families: a dispatch through a table of label references (lref data) */
static const char *LREF_PROG = "m: module\nimport e0, e1, e2, ev, ed, emem, e6, e10, edd, eid, e32, eu8, gbuf\n"
  "tab: lref L1\n  lref L2\n  lref L2, L1\n"
  "f: func i64, i64:a, i64:b, p:m, p:q, d:x, d:y\n  local i64:r, i64:t, i64:la\n  and t, a, 1\n  mov la, tab\n  mov la, i64:(la, t, 8)\n  jmpi la\nL1:\n  add r, b, 10\n  ret r\nL2:\n  sub r, b, 20\n  ret r\nendfunc\nendmodule\n";
static const family LREF_FAM = {"X-lref-dispatch", NULL, NULL, in_intgrid_n, in_intgrid};
static void failh (const char *kind, const char *fmt, ...) {
  char hist[800], msg[700]; va_list ap; bfs_history_text (hist, sizeof hist); va_start (ap, fmt); vsnprintf (msg, sizeof msg, fmt, ap); va_end (ap);
  vp_fail (kind, "history=[%s] %s", hist, msg);
}
static void w_opname (int op, char *buf, size_t n) { snprintf (buf, n, "%s", ONAME[op]); }
static MIR_module_t module_named (mh_ctx *mc, const char *name) { for (MIR_module_t m = DLIST_HEAD (MIR_module_t, *MIR_get_module_list (mc->ctx)); m; m = DLIST_NEXT (MIR_module_t, m)) if (!strcmp (m->name, name)) return m; return NULL; }

static void *w_fresh (void *cfgp) {
  world *w = calloc (1, sizeof *w); w->c = *(cfg *) cfgp; w->level = 2; mh_open (&w->mc);
  if (mh_scan (&w->mc, PROG) != 0 || mh_scan (&w->mc, MORE_CALL) != 0 || mh_scan (&w->mc, MORE_INL) != 0) { fprintf (stderr, "C16: program rejected: %s\n", w->mc.errmsg); exit (3); }
  /* f must be visible to modules linked later */
  mh_cur = &w->mc; mh_arm (1);
  if (setjmp (mh_err_jb) == 0) {
    MIR_context_t ctx = w->mc.ctx; MIR_module_t m = module_named (&w->mc, "m");
    w->f = mh_find_func (&w->mc, "f");
    MIR_load_module (ctx, m); for (int i = 0; i < mh_n_exts; i++) MIR_load_external (ctx, mh_exts[i].name, mh_exts[i].addr);
    MIR_gen_init (ctx); w->mc.gen_inited = 1; MIR_gen_set_optimize_level (ctx, 2);
    MIR_link (ctx, w->c.start == 0 ? MIR_set_interp_interface : w->c.start == 1 ? MIR_set_gen_interface : MIR_set_lazy_gen_interface, NULL);
    w->generated = w->c.start == 1; w->gen_level = 2; w->addr0 = w->f->addr;
  } else w->dead = 1;
  mh_arm (0);
  if (w->dead) failh ("mir-error", "initial load/link failed: %s", w->mc.errmsg);
  return w;
}
static void w_destroy (void *p) { world *w = p; mh_close (&w->mc); free (w); }

static void check_run (world *w, MIR_item_t fn, int via_interp, int64_t add, const char *what) {
  for (int i = 0; i < n_inputs; i++) {
    if (!EXPECT[i].ok) continue;
    mh_args a; MIR_val_t res[2]; memset (res, 0, sizeof res); set_input (FAM->input (FIDX, i * (FAM->ninputs (FIDX) / n_inputs)), &a);
    mh_engine saved = w->mc.engine; w->mc.engine = via_interp ? E_INTERP : E_GEN2;
    int rc = mh_call (&w->mc, fn, &a, res); w->mc.engine = saved;
    if (rc != 0) { failh ("mir-error", "%s raised: %s", what, w->mc.errmsg); w->dead = 1; return; }
    int64_t want = EXPECT[i].ret + add; int bad = EXPECT[i].low32 ? (uint32_t) res[0].i != (uint32_t) want : res[0].i != want;
    if (bad || mem_obs () != EXPECT[i].mem || mh_log_hash () != EXPECT[i].log) { failh ("behaviour-changed", "%s on input #%d: returned %#llx, the program as written gives %#llx; memory %s, external calls %s", what, i, (unsigned long long) res[0].i, (unsigned long long) want, mem_obs () == EXPECT[i].mem ? "equal" : "DIFFERENT", mh_log_hash () == EXPECT[i].log ? "equal" : "DIFFERENT"); return; }
    vp_count ("executions", 1);
  }
}
static int w_apply (void *p, int op, int step, int check) {
  world *w = p; MIR_context_t ctx = w->mc.ctx; if (w->dead) return 0;
  volatile int errored = 0; mh_cur = &w->mc;
  switch (op) {
  case O_GEN: { void *a = NULL; mh_arm (1); if (setjmp (mh_err_jb) == 0) a = MIR_gen (ctx, w->f); else errored = 1; mh_arm (0);
      if (errored) { if (check) failh ("mir-error", "MIR_gen raised: %s", w->mc.errmsg); w->dead = 1; return 1; }
      if (check && w->generated && w->gen_addr != NULL && a != w->gen_addr) failh ("gen-address-changed", "a repeated MIR_gen returned %p, the first one %p", a, w->gen_addr);
      if (w->gen_addr == NULL) w->gen_addr = a; if (!w->generated) w->gen_level = w->level; w->generated = 1; break; }
  case O_LEVEL0: case O_LEVEL3: { int l = op == O_LEVEL0 ? 0 : 3; if (w->level == l) return 0; MIR_gen_set_optimize_level (ctx, l); w->level = l; break; }
  case O_OUTPUT: break; /* the text is compared after every operation anyway */
  case O_INTERP: if (!w->generated) return 0; /* the property speaks of interpretation after generation; interpreting first and generating later is outside it */
    if (check) check_run (w, w->f, 1, 0, "MIR_interp(f)"); else { /* replay: the interpreter caches per-function data, keep the side effect */ mh_args a; MIR_val_t r[2]; set_input (FAM->input (FIDX, 0), &a); mh_engine s = w->mc.engine; w->mc.engine = E_INTERP; if (EXPECT[0].ok) mh_call (&w->mc, w->f, &a, r); w->mc.engine = s; } break;
  case O_CALL: if (w->c.start == 0 && !w->generated) return 0; /* would interpret first (see above) */ if (w->c.start == 2) { if (!w->generated) w->gen_level = w->level; w->generated = 1; } /* lazy: first call generates */
    if (check) check_run (w, w->f, 0, 0, "call through f->addr"); else { mh_args a; MIR_val_t r[2]; set_input (FAM->input (FIDX, 0), &a); mh_engine s = w->mc.engine; w->mc.engine = E_GEN2; if (EXPECT[0].ok) mh_call (&w->mc, w->f, &a, r); w->mc.engine = s; } break;
  case O_MORE_CALL: case O_MORE_INL: { int inl = op == O_MORE_INL; if (inl ? w->more_inl : w->more_call) return 0;
      mh_arm (1); if (setjmp (mh_err_jb) == 0) { MIR_load_module (ctx, module_named (&w->mc, inl ? "ni" : "nc")); MIR_link (ctx, w->c.start == 0 ? MIR_set_interp_interface : w->c.start == 1 ? MIR_set_gen_interface : MIR_set_lazy_gen_interface, NULL); } else errored = 1; mh_arm (0);
      if (errored) { if (check) failh ("mir-error", "linking a later module raised: %s", w->mc.errmsg); w->dead = 1; return 1; }
      if (inl) w->more_inl = 1; else w->more_call = 1;
      if (check) { MIR_item_t g = mh_find_func (&w->mc, inl ? "gi" : "gc"); check_run (w, g, w->c.start == 0, inl ? 2 : 1, inl ? "module that inlines f" : "module that calls f"); }
      break; }
  }
  if (check && !w->dead) { /* invariants of every state */
    size_t l; char *t = item_text (&w->mc, w->f, &l);
    if (l != REF_TEXT_LEN || memcmp (t, REF_TEXT, l)) { size_t k = 0; while (k < l && k < REF_TEXT_LEN && t[k] == REF_TEXT[k]) k++; size_t s = k > 40 ? k - 40 : 0; failh ("mir-text-changed", "MIR_output_item(f) differs from its text before any generation at byte %zu: '%.70s' vs '%.70s'", k, t + s, REF_TEXT + s); }
    free (t);
    if (w->f->addr != w->addr0) failh ("public-address-changed", "f->addr changed from %p to %p", w->addr0, w->f->addr);
  }
  return 1;
}
static uint64_t w_canon (void *p) {
  world *w = p; uint64_t h = 31; h = vp_hash_u64 (h, w->dead); h = vp_hash_u64 (h, w->level); h = vp_hash_u64 (h, w->generated ? 10 + w->gen_level : 0); /* the level f was generated at decides the size of generator tables later functions meet */ h = vp_hash_u64 (h, w->more_call | w->more_inl << 1);
  h = vp_hash_u64 (h, w->f && w->f->u.func->machine_code != NULL); h = vp_hash_u64 (h, w->f && w->f->data != NULL);
  size_t l; char *t = item_text (&w->mc, w->f, &l); h = vp_hash_u64 (h, l == REF_TEXT_LEN && memcmp (t, REF_TEXT, l) == 0); free (t);
  return h;
}

void drv_init (int thorough) {
  progfam_thorough = 0; depth = thorough ? 6 : 5;
  /* six representatives per family, evenly spaced through its index space */
  for (int f = 0; f < NFAM; f++) { uint64_t n = FAMILIES[f].count (0); if (n == 0) continue; uint64_t pick[6] = {0, n / 5, 2 * n / 5, 3 * n / 5, 4 * n / 5, n - 1};
    for (int k = 0; k < 6; k++) { int dup = 0; for (int j = 0; j < n_reps; j++) if (REPS[j].fam == f && REPS[j].idx == pick[k]) dup = 1; if (!dup && n_reps < 190) REPS[n_reps++] = (rep){f, pick[k]}; } }
  if (n_reps < 200) REPS[n_reps++] = (rep){-1, 0};
  for (int r = 0; r < n_reps; r++) for (int s = 0; s < 3; s++) CFGS[n_cfgs++] = (cfg){r, s};
}
uint64_t drv_ncases (void) { return n_cfgs; }
void drv_describe (uint64_t idx, char *buf, size_t n) { cfg *c = &CFGS[idx]; snprintf (buf, n, "C16 program=%s#%llu start=%s depth=%d", REPS[c->rep].fam < 0 ? "X-lref-dispatch" : FAMILIES[REPS[c->rep].fam].name, (unsigned long long) REPS[c->rep].idx, SNAME[c->start], depth); }

void drv_case (uint64_t idx) {
  cfg *c = &CFGS[idx]; FIDX = REPS[c->rep].idx; f3_features = 0;
  if (REPS[c->rep].fam < 0) { FAM = &LREF_FAM; snprintf (PT, sizeof PT, "%s", LREF_PROG); } else { FAM = &FAMILIES[REPS[c->rep].fam]; FAM->render (FIDX); }
  if (f3_features & 1) { vp_count ("skipped_known_nontermination_class", 1); return; }
#if defined(__SANITIZE_ADDRESS__)
  /* the interpreter implements bstart/bend by resetting the stack pointer inside eval(); ASan does not see that and keeps the
     alloca redzones poisoned, so inlined callees with alloca give false reports under ASan (they run on the prod build) */
  if (strstr (PT, "alloca") != NULL && strstr (FAM->name, "F9") != NULL) { vp_count ("skipped_under_asan_bstart_bend", 1); return; }
#endif
  { const char *hd = "m: module\n"; size_t hl = strlen (hd); if (strncmp (PT, hd, hl) != 0) { vp_fail ("harness-scan-error", "unexpected program header"); return; }
    snprintf (PROG, sizeof PROG, "%sexport f\n%s", hd, PT + hl); } /* f must be visible to modules linked later */
  /* reference behaviour (refinterp on the un-linked module) and reference text (after a link without generation) */
  mh_ctx rc; mh_open (&rc); if (mh_scan (&rc, PROG) != 0) { vp_fail ("harness-scan-error", "%s", rc.errmsg); mh_close (&rc); return; }
  MIR_item_t f = mh_find_func (&rc, "f"); n_inputs = FAM->ninputs (FIDX) < 3 ? FAM->ninputs (FIDX) : 3; int any = 0;
  for (int i = 0; i < n_inputs; i++) { mh_args a; ri_ctx ri; ri_val res[2]; memset (res, 0, sizeof res); set_input (FAM->input (FIDX, i * (FAM->ninputs (FIDX) / n_inputs)), &a); ri_init (&ri, rc.ctx, mh_exts, mh_n_exts, 20000);
    EXPECT[i].ok = mh_ref_call (&ri, f, &a, res) == RI_OK; EXPECT[i].low32 = res[0].taint; EXPECT[i].ret = res[0].u.i; EXPECT[i].mem = mem_obs (); EXPECT[i].log = mh_log_hash (); any |= EXPECT[i].ok; ri_finish (&ri); }
  if (mh_link (&rc, E_INTERP) != 0) { vp_fail ("mir-error", "%s", rc.errmsg); mh_close (&rc); return; }
  if (REPS[c->rep].fam < 0) /* refinterp does not model data sections: this program is well defined by construction and MIR_interp in a context of its own gives the reference */
    for (int i = 0; i < n_inputs; i++) { mh_args a; MIR_val_t res[2]; memset (res, 0, sizeof res); set_input (FAM->input (FIDX, i * (FAM->ninputs (FIDX) / n_inputs)), &a);
      EXPECT[i].ok = mh_call (&rc, f, &a, res) == 0; EXPECT[i].low32 = 0; EXPECT[i].ret = res[0].i; EXPECT[i].mem = mem_obs (); EXPECT[i].log = mh_log_hash (); any |= EXPECT[i].ok; }
  free (REF_TEXT); REF_TEXT = item_text (&rc, f, &REF_TEXT_LEN); mh_close (&rc);
  if (!any) { vp_count ("programs_undefined_on_every_input", 1); }
  bfs_model m = {NOPS, w_fresh, w_destroy, w_apply, w_canon, w_opname, c};
  bfs_result r = bfs_run (&m, depth, NULL, 0);
  vp_count ("states", r.states); vp_count ("transitions", r.transitions); vp_max ("depth", r.max_depth);
  if (r.replay_divergences) vp_fail ("infra-replay-divergence", "canonical state differs between two replays of the same history");
  vp_nontrivial ();
  if (idx % 17 == 0) { char d[300]; drv_describe (idx, d, sizeof d); vp_sample ("%s: %llu states, %llu transitions", d, (unsigned long long) r.states, (unsigned long long) r.transitions); }
}
