"""C06 - MIR functions are correct C-ABI callees and preserve the caller's machine state (driver: checks/c05_abi.c in callee mode)."""
from checks import c05_abi

def run(tier):
    return c05_abi.run_mode("C06", tier, True)
