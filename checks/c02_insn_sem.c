/* C02 - every instruction computes its documented result: opcode x operand shape x value grid x engine,
   oracle = refinterp (independent reference semantics written from MIR.md).  DESIGN.md §3 C02. */
#include "vp.h"
#include "mirh.h"
#include <string.h>
#include <stdlib.h>
#include <stdio.h>
#include <math.h>
#include <float.h>
#include <stdarg.h>

/* ---------------- opcode table ---------------- */
typedef enum { K_I2, K_I3, K_I2FP, K_FP2I, K_FP2, K_FP3, K_FPCMP, K_BR2, K_BR3I, K_BR3F, K_OVF } okind;
typedef struct { const char *name; okind kind; char src; char dst; /* 'i','f','d','l' */ } opdesc;
#define I3(n) {n, K_I3, 'i', 'i'}
static const opdesc OPS[] = {
  {"mov", K_I2, 'i', 'i'}, {"ext8", K_I2, 'i', 'i'}, {"ext16", K_I2, 'i', 'i'}, {"ext32", K_I2, 'i', 'i'}, {"uext8", K_I2, 'i', 'i'}, {"uext16", K_I2, 'i', 'i'}, {"uext32", K_I2, 'i', 'i'},
  {"neg", K_I2, 'i', 'i'}, {"negs", K_I2, 'i', 'i'},
  I3 ("add"), I3 ("adds"), I3 ("sub"), I3 ("subs"), I3 ("mul"), I3 ("muls"), I3 ("div"), I3 ("divs"), I3 ("udiv"), I3 ("udivs"), I3 ("mod"), I3 ("mods"), I3 ("umod"), I3 ("umods"),
  I3 ("and"), I3 ("ands"), I3 ("or"), I3 ("ors"), I3 ("xor"), I3 ("xors"), I3 ("lsh"), I3 ("lshs"), I3 ("rsh"), I3 ("rshs"), I3 ("ursh"), I3 ("urshs"),
  I3 ("eq"), I3 ("eqs"), I3 ("ne"), I3 ("nes"), I3 ("lt"), I3 ("lts"), I3 ("ult"), I3 ("ults"), I3 ("le"), I3 ("les"), I3 ("ule"), I3 ("ules"),
  I3 ("gt"), I3 ("gts"), I3 ("ugt"), I3 ("ugts"), I3 ("ge"), I3 ("ges"), I3 ("uge"), I3 ("uges"),
  {"i2f", K_I2FP, 'i', 'f'}, {"i2d", K_I2FP, 'i', 'd'}, {"i2ld", K_I2FP, 'i', 'l'}, {"ui2f", K_I2FP, 'i', 'f'}, {"ui2d", K_I2FP, 'i', 'd'}, {"ui2ld", K_I2FP, 'i', 'l'},
  {"f2i", K_FP2I, 'f', 'i'}, {"d2i", K_FP2I, 'd', 'i'}, {"ld2i", K_FP2I, 'l', 'i'},
  {"f2d", K_FP2, 'f', 'd'}, {"f2ld", K_FP2, 'f', 'l'}, {"d2f", K_FP2, 'd', 'f'}, {"d2ld", K_FP2, 'd', 'l'}, {"ld2f", K_FP2, 'l', 'f'}, {"ld2d", K_FP2, 'l', 'd'},
  {"fmov", K_FP2, 'f', 'f'}, {"dmov", K_FP2, 'd', 'd'}, {"ldmov", K_FP2, 'l', 'l'}, {"fneg", K_FP2, 'f', 'f'}, {"dneg", K_FP2, 'd', 'd'}, {"ldneg", K_FP2, 'l', 'l'},
  {"fadd", K_FP3, 'f', 'f'}, {"fsub", K_FP3, 'f', 'f'}, {"fmul", K_FP3, 'f', 'f'}, {"fdiv", K_FP3, 'f', 'f'},
  {"dadd", K_FP3, 'd', 'd'}, {"dsub", K_FP3, 'd', 'd'}, {"dmul", K_FP3, 'd', 'd'}, {"ddiv", K_FP3, 'd', 'd'},
  {"ldadd", K_FP3, 'l', 'l'}, {"ldsub", K_FP3, 'l', 'l'}, {"ldmul", K_FP3, 'l', 'l'}, {"lddiv", K_FP3, 'l', 'l'},
  {"feq", K_FPCMP, 'f', 'i'}, {"deq", K_FPCMP, 'd', 'i'}, {"ldeq", K_FPCMP, 'l', 'i'}, {"fne", K_FPCMP, 'f', 'i'}, {"dne", K_FPCMP, 'd', 'i'}, {"ldne", K_FPCMP, 'l', 'i'},
  {"flt", K_FPCMP, 'f', 'i'}, {"dlt", K_FPCMP, 'd', 'i'}, {"ldlt", K_FPCMP, 'l', 'i'}, {"fle", K_FPCMP, 'f', 'i'}, {"dle", K_FPCMP, 'd', 'i'}, {"ldle", K_FPCMP, 'l', 'i'},
  {"fgt", K_FPCMP, 'f', 'i'}, {"dgt", K_FPCMP, 'd', 'i'}, {"ldgt", K_FPCMP, 'l', 'i'}, {"fge", K_FPCMP, 'f', 'i'}, {"dge", K_FPCMP, 'd', 'i'}, {"ldge", K_FPCMP, 'l', 'i'},
  {"bt", K_BR2, 'i', 0}, {"bts", K_BR2, 'i', 0}, {"bf", K_BR2, 'i', 0}, {"bfs", K_BR2, 'i', 0},
#define B3(n) {n, K_BR3I, 'i', 0}
  B3 ("beq"), B3 ("beqs"), B3 ("bne"), B3 ("bnes"), B3 ("blt"), B3 ("blts"), B3 ("ublt"), B3 ("ublts"), B3 ("ble"), B3 ("bles"), B3 ("uble"), B3 ("ubles"),
  B3 ("bgt"), B3 ("bgts"), B3 ("ubgt"), B3 ("ubgts"), B3 ("bge"), B3 ("bges"), B3 ("ubge"), B3 ("ubges"),
  {"fbeq", K_BR3F, 'f', 0}, {"dbeq", K_BR3F, 'd', 0}, {"ldbeq", K_BR3F, 'l', 0}, {"fbne", K_BR3F, 'f', 0}, {"dbne", K_BR3F, 'd', 0}, {"ldbne", K_BR3F, 'l', 0},
  {"fblt", K_BR3F, 'f', 0}, {"dblt", K_BR3F, 'd', 0}, {"ldblt", K_BR3F, 'l', 0}, {"fble", K_BR3F, 'f', 0}, {"dble", K_BR3F, 'd', 0}, {"ldble", K_BR3F, 'l', 0},
  {"fbgt", K_BR3F, 'f', 0}, {"dbgt", K_BR3F, 'd', 0}, {"ldbgt", K_BR3F, 'l', 0}, {"fbge", K_BR3F, 'f', 0}, {"dbge", K_BR3F, 'd', 0}, {"ldbge", K_BR3F, 'l', 0},
  {"addo", K_OVF, 'i', 'i'}, {"addos", K_OVF, 'i', 'i'}, {"subo", K_OVF, 'i', 'i'}, {"subos", K_OVF, 'i', 'i'}, {"mulo", K_OVF, 'i', 'i'}, {"mulos", K_OVF, 'i', 'i'}, {"umulo", K_OVF, 'i', 'i'}, {"umulos", K_OVF, 'i', 'i'},
};
#define NOPS ((int) (sizeof (OPS) / sizeof (OPS[0])))
static const char *OVF_BR[] = {"bo", "bno", "ubo", "ubno"};

/* ---------------- value grids ---------------- */
static int64_t IV[96]; static int n_iv;
static double FV[48]; static int n_fv; /* fp grid (as double; narrowed for f, widened for ld) */
static long double LDX[4]; /* extra long-double-only values */
static void add_iv (int64_t v) { for (int j = 0; j < n_iv; j++) if (IV[j] == v) return; if (n_iv < 96) IV[n_iv++] = v; }
static void build_grids (int thorough) {
  static const int64_t t[] = {0, 1, -1, 2, -2, 3, 5, 31, 33, 63, 64, 65, INT32_MIN, INT32_MAX, INT64_MIN, INT64_MAX, 0x5555555555555555ll, (int64_t) 0xAAAAAAAAAAAAAAAAull, -7, 100};
  for (unsigned i = 0; i < sizeof t / sizeof t[0]; i++) add_iv (t[i]);
  static const int ks[] = {7, 8, 15, 16, 31, 32, 63}, kt[] = {4, 24, 30, 33, 47, 48, 62};
  for (int i = 0; i < 7; i++) { uint64_t p = 1ull << ks[i]; add_iv ((int64_t) p); add_iv ((int64_t) (p - 1)); add_iv ((int64_t) (p + 1)); }
  if (thorough) {
    for (int i = 0; i < 7; i++) { uint64_t p = 1ull << kt[i]; add_iv ((int64_t) p); add_iv ((int64_t) (p - 1)); add_iv ((int64_t) (p + 1)); add_iv (-(int64_t) p); }
    add_iv (-(1ll << 31) - 1); add_iv (-(1ll << 32)); add_iv (0x00000000ffffff80ll); add_iv ((int64_t) 0xffffffff7fffffffull); add_iv (0x0123456789abcdefll); add_iv (10); add_iv (-128); add_iv (-32768);
  }
  static const double fq[] = {0.0, -0.0, 1.0, -1.0, 0.5, 1.5, -2.5, 0.1, 3.0, 16777217.0, 9007199254740993.0, 9223372036854775808.0, -9223372036854775808.0, 18446744073709551616.0, 4294967296.0, 2147483648.0, -2147483649.0, 123456.789};
  for (unsigned i = 0; i < sizeof fq / sizeof fq[0]; i++) FV[n_fv++] = fq[i];
  FV[n_fv++] = INFINITY; FV[n_fv++] = -INFINITY; FV[n_fv++] = NAN;
  FV[n_fv++] = DBL_MAX; FV[n_fv++] = -DBL_MAX; FV[n_fv++] = DBL_MIN; FV[n_fv++] = 4.9406564584124654e-324; /* min denormal */
  FV[n_fv++] = FLT_MAX; FV[n_fv++] = FLT_MIN; FV[n_fv++] = 1.401298464324817e-45; FV[n_fv++] = -4.9406564584124654e-324; FV[n_fv++] = 16777215.0; FV[n_fv++] = 9007199254740991.0;
  if (thorough) { FV[n_fv++] = -0.1; FV[n_fv++] = 9223372036854774784.0; FV[n_fv++] = -9223372036854777856.0; FV[n_fv++] = 0.49999999999999994; FV[n_fv++] = 1e300; FV[n_fv++] = 1e-300; FV[n_fv++] = 65536.5; FV[n_fv++] = -FLT_MAX; }
}

/* ---------------- shapes ---------------- */
/* where an operand lives */
typedef enum { P_REG, P_IMM, P_MEM } place;
/* memory addressing forms: slot offset is OFF within buffer m */
typedef enum { MF_DISP_BASE, MF_BASE, MF_INDEX1, MF_INDEX2, MF_INDEX4, MF_INDEX8, MF_DISP_INDEX8, MF_ABS, MF_NFORMS } memform;
static const char *ITYPES[] = {"i64", "i8", "u8", "i16", "u16", "i32", "u32", "u64", "p"};
typedef struct { int op; int br;            /* overflow-branch variant for K_OVF */
  place p1, p2, pd; memform mf; int mtype;   /* index into ITYPES for int memory operands */
  int alias;                                  /* 0 none, 1 dst==src1, 2 dst==src2, 3 src1==src2 */
  int fold;                                   /* operands come from 'mov r,imm' (constant folding in the generator) */
  int v1, v2;                                 /* grid indexes used by immediates (-1: from arguments) */
} tcase;
static tcase *CASES; static size_t n_cases, cap_cases;
static void add_case (tcase c) { if (n_cases == cap_cases) { cap_cases = cap_cases ? cap_cases * 2 : 4096; CASES = realloc (CASES, cap_cases * sizeof (tcase)); } CASES[n_cases++] = c; }
static int nsrc (const opdesc *o) { return (o->kind == K_I2 || o->kind == K_I2FP || o->kind == K_FP2I || o->kind == K_FP2 || o->kind == K_BR2) ? 1 : 2; }
static int grid_n (char cls) { return cls == 'i' ? n_iv : n_fv; }

static void build_cases (int thorough) {
  for (int op = 0; op < NOPS; op++) {
    const opdesc *o = &OPS[op]; int two = nsrc (o) == 2, has_dst = o->dst != 0;
    int nbr = o->kind == K_OVF ? 4 : 1;
    for (int br = 0; br < nbr; br++) {
      if (o->kind == K_OVF) { int um = strncmp (o->name, "umul", 4) == 0, sm = strncmp (o->name, "mulo", 4) == 0; if ((um && br < 2) || (sm && br >= 2)) continue; }
      tcase b = {op, br, P_REG, P_REG, P_REG, MF_DISP_BASE, 0, 0, 0, -1, -1};
      add_case (b);                                                       /* all registers */
      for (int mf = 0; mf < MF_NFORMS; mf++) {                            /* each source / the destination in memory, every addressing form */
        tcase c = b; c.mf = mf; c.p1 = P_MEM; add_case (c);
        if (two) { c = b; c.mf = mf; c.p2 = P_MEM; add_case (c); }
        if (has_dst) { c = b; c.mf = mf; c.pd = P_MEM; add_case (c); }
      }
      if (o->src == 'i') for (int mt = 1; mt < 9; mt++) {                 /* narrow / unsigned memory types on integer operands */
        tcase c = b; c.mtype = mt; c.p1 = P_MEM; add_case (c);
        if (two) { c = b; c.mtype = mt; c.p2 = P_MEM; add_case (c); }
      }
      if (o->dst == 'i') for (int mt = 1; mt < 9; mt++) { tcase c = b; c.mtype = mt; c.pd = P_MEM; add_case (c); }
      if (has_dst) { tcase c = b; c.alias = 1; add_case (c); if (two) { c.alias = 2; add_case (c); } }
      if (two) { tcase c = b; c.alias = 3; add_case (c); }
      /* immediates: one function per value */
      int n1 = grid_n (o->src);
      for (int v = 0; v < n1; v++) {
        tcase c = b; c.p1 = P_IMM; c.v1 = v; add_case (c);
        if (two) { c = b; c.p2 = P_IMM; c.v2 = v; add_case (c); }
      }
      /* one operand in memory, the other an immediate (the generator folds the load into the instruction: reg-mem-imm patterns) */
      if (two && o->src == 'i') for (int v = 0; v < n1; v++) for (int mt = 0; mt < 9; mt += 5) {
        tcase c = b; c.mtype = mt; c.p1 = P_MEM; c.p2 = P_IMM; c.v2 = v; add_case (c);
        c = b; c.mtype = mt; c.p2 = P_MEM; c.p1 = P_IMM; c.v1 = v; add_case (c);
      }
      /* both operands constant: directly and through moves (folded by GVN/CCP at -O2/-O3) */
      if (two) { for (int v = 0; v < n1; v++) for (int w = 0; w < n1; w++) { tcase c = b; c.fold = 1; c.v1 = v; c.v2 = w; add_case (c); c.fold = 0; c.p1 = c.p2 = P_IMM; add_case (c); } }
      else for (int v = 0; v < n1; v++) { tcase c = b; c.fold = 1; c.v1 = v; add_case (c); }
    }
  }
}

/* ---------------- text generation ---------------- */
static char TXT[8192]; static size_t tl;
static void P (const char *fmt, ...) { va_list ap; va_start (ap, fmt); tl += vsnprintf (TXT + tl, sizeof TXT - tl, fmt, ap); va_end (ap); }
#define SLOT1 64
#define SLOT2 96
#define SLOTD 128
static const char *fpt (char c) { return c == 'f' ? "f" : c == 'd' ? "d" : c == 'l' ? "ld" : "i64"; }
static void imm_text (char cls, int v, char *buf, size_t n) {
  if (cls == 'i') snprintf (buf, n, "%lld", (long long) IV[v]);
  else {
    double d = FV[v]; /* MIR text has no syntax for inf/nan: those values are delivered through registers only */
    if (cls == 'f') snprintf (buf, n, "%.9gf", (double) (float) d);
    else if (cls == 'd') snprintf (buf, n, "%.17g", d);
    else snprintf (buf, n, "%.21LgL", (long double) d);
    if (!strpbrk (buf, ".e")) { /* force a floating literal */ size_t k = strlen (buf); char suf = (cls == 'f' || cls == 'l') ? buf[k - 1] : 0; if (suf) buf[k - 1] = 0; strcat (buf, ".0"); if (suf) { k = strlen (buf); buf[k] = suf; buf[k + 1] = 0; } }
  }
}
static int imm_ok (char cls, int v) { if (cls == 'i') return 1; double d = cls == 'f' ? (double) (float) FV[v] : FV[v]; return isfinite (d); }
/* memory operand text for slot offset off; also tells the harness what c/q must be */
static void mem_text (memform mf, const char *type, int off, char *buf, size_t n, int64_t *c_val) {
  *c_val = 0;
  switch (mf) {
  case MF_DISP_BASE: snprintf (buf, n, "%s:%d(m)", type, off); break;
  case MF_BASE: snprintf (buf, n, "%s:(q)", type); break; /* q = m + off */
  case MF_INDEX1: snprintf (buf, n, "%s:(m,c)", type); *c_val = off; break;
  case MF_INDEX2: snprintf (buf, n, "%s:(m,c,2)", type); *c_val = off / 2; break;
  case MF_INDEX4: snprintf (buf, n, "%s:(m,c,4)", type); *c_val = off / 4; break;
  case MF_INDEX8: snprintf (buf, n, "%s:(m,c,8)", type); *c_val = off / 8; break;
  case MF_DISP_INDEX8: snprintf (buf, n, "%s:-24(m,c,8)", type); *c_val = (off + 24) / 8; break;
  case MF_ABS: snprintf (buf, n, "%s:%lld", type, (long long) (intptr_t) (mh_buf[0] + off)); break;
  default: break;
  }
}
static int64_t C_VAL; static int Q_OFF;
/* returns 0 if this case cannot be expressed (skipped) */
static int gen_text (const tcase *t) {
  const opdesc *o = &OPS[t->op]; int two = nsrc (o) == 2; char s1[96], s2[96], sd[96]; int64_t cv = 0; char sc = o->src, dc = o->dst;
  tl = 0; C_VAL = 0; Q_OFF = 0;
  if ((t->p1 == P_IMM && t->v1 >= 0 && !imm_ok (sc, t->v1)) || (two && t->p2 == P_IMM && t->v2 >= 0 && !imm_ok (sc, t->v2))) return 0;
  if (t->fold && ((t->v1 >= 0 && !imm_ok (sc, t->v1)) || (two && !imm_ok (sc, t->v2)))) return 0;
  P ("m: module\nt: func i64, i64:a, i64:b, i64:c, p:m, p:q");
  if (sc == 'f' || sc == 'd') P (", %s:x, %s:y", fpt (sc), fpt (sc));
  P ("\n  local i64:r, i64:k, i64:s1, i64:s2");
  if (sc != 'i') P (", %s:x1, %s:x2", fpt (sc), fpt (sc));
  if (dc && dc != 'i') P (", %s:xr", fpt (dc));
  P ("\n");
  /* deliver register operands */
  const char *r1 = sc == 'i' ? "a" : "x", *r2 = sc == 'i' ? "b" : "y";
  if (sc == 'l') { P ("  ldmov x1, ld:%d(m)\n  ldmov x2, ld:%d(m)\n", SLOT1, SLOT2); r1 = "x1"; r2 = "x2"; }
  if (t->fold) {
    char i1[64], i2[64]; imm_text (sc, t->v1, i1, sizeof i1); if (two) imm_text (sc, t->v2, i2, sizeof i2);
    const char *mv = sc == 'i' ? "mov" : sc == 'f' ? "fmov" : sc == 'd' ? "dmov" : "ldmov";
    const char *t1 = sc == 'i' ? "s1" : "x1", *t2 = sc == 'i' ? "s2" : "x2";
    P ("  %s %s, %s\n", mv, t1, i1); if (two) P ("  %s %s, %s\n", mv, t2, i2);
    r1 = t1; r2 = t2;
  }
  const char *mt = sc == 'i' ? ITYPES[t->mtype] : fpt (sc);
  if (t->p1 == P_REG) snprintf (s1, sizeof s1, "%s", r1); else if (t->p1 == P_IMM) imm_text (sc, t->v1, s1, sizeof s1); else { mem_text (t->mf, mt, SLOT1, s1, sizeof s1, &cv); C_VAL = cv; Q_OFF = SLOT1; }
  if (two) { if (t->p2 == P_REG) snprintf (s2, sizeof s2, "%s", t->alias == 3 ? r1 : r2); else if (t->p2 == P_IMM) imm_text (sc, t->v2, s2, sizeof s2); else { mem_text (t->mf, mt, SLOT2, s2, sizeof s2, &cv); C_VAL = cv; Q_OFF = SLOT2; } }
  const char *dreg = dc == 'i' ? "r" : "xr";
  if (dc) {
    if (t->pd == P_MEM) { mem_text (t->mf, dc == 'i' ? ITYPES[t->mtype] : fpt (dc), SLOTD, sd, sizeof sd, &cv); C_VAL = cv; Q_OFF = SLOTD; }
    else if (t->alias == 1 && dc == sc && t->p1 == P_REG) { /* dst is the same register as src1: copy the argument first */
      const char *mv = sc == 'i' ? "mov" : sc == 'f' ? "fmov" : sc == 'd' ? "dmov" : "ldmov";
      P ("  %s %s, %s\n", mv, dreg, s1); snprintf (s1, sizeof s1, "%s", dreg); snprintf (sd, sizeof sd, "%s", dreg);
    } else if (t->alias == 2 && dc == sc && two && t->p2 == P_REG) {
      const char *mv = sc == 'i' ? "mov" : sc == 'f' ? "fmov" : sc == 'd' ? "dmov" : "ldmov";
      P ("  %s %s, %s\n", mv, dreg, s2); snprintf (s2, sizeof s2, "%s", dreg); snprintf (sd, sizeof sd, "%s", dreg);
    } else { if (t->alias == 1 || t->alias == 2) return 0; snprintf (sd, sizeof sd, "%s", dreg); }
  }
  switch (o->kind) {
  case K_BR2: P ("  %s L1, %s\n  mov r, 0\n  jmp L2\nL1:\n  mov r, 1\nL2:\n  ret r\n", o->name, s1); break;
  case K_BR3I: case K_BR3F: P ("  %s L1, %s, %s\n  mov r, 0\n  jmp L2\nL1:\n  mov r, 1\nL2:\n  ret r\n", o->name, s1, s2); break;
  case K_OVF:
    P ("  %s %s, %s, %s\n  %s L1\n  mov k, 0\n  jmp L2\nL1:\n  mov k, 1\nL2:\n", o->name, sd, s1, s2, OVF_BR[t->br]);
    if (t->pd == P_MEM) P ("  ret k\n"); else P ("  mov %s:%d(m), r\n  ret k\n", o->name[strlen (o->name) - 1] == 's' ? "i32" : "i64", SLOTD + 32);
    break;
  default:
    if (two) P ("  %s %s, %s, %s\n", o->name, sd, s1, s2); else P ("  %s %s, %s\n", o->name, sd, s1);
    if (t->pd == P_MEM) P ("  ret 0\n");
    else if (dc == 'i') P ("  ret r\n");
    else { P ("  %s %s:%d(m), xr\n  ret 0\n", dc == 'f' ? "fmov" : dc == 'd' ? "dmov" : "ldmov", fpt (dc), SLOTD + 32); }
  }
  P ("endfunc\nendmodule\n");
  return 1;
}

void drv_init (int thorough) { build_grids (thorough); build_cases (thorough); }
uint64_t drv_ncases (void) { return n_cases; }
void drv_describe (uint64_t idx, char *buf, size_t n) {
  const tcase *t = &CASES[idx]; const opdesc *o = &OPS[t->op]; static const char *pl[] = {"reg", "imm", "mem"};
  static const char *mfn[] = {"disp(base)", "(base)", "(base,index)", "(base,index,2)", "(base,index,4)", "(base,index,8)", "disp(base,index,8)", "absolute"};
  char v1[64] = "-", v2[64] = "-"; if (t->v1 >= 0) imm_text (o->src, t->v1, v1, sizeof v1); if (t->v2 >= 0) imm_text (o->src, t->v2, v2, sizeof v2);
  snprintf (buf, n, "C02 op=%s%s%s src1=%s src2=%s dst=%s memform=%s memtype=%s alias=%d fold=%d imm1=%s imm2=%s", o->name, o->kind == K_OVF ? "+" : "", o->kind == K_OVF ? OVF_BR[t->br] : "",
            pl[t->p1], nsrc (o) == 2 ? pl[t->p2] : "-", o->dst ? pl[t->pd] : "-", mfn[t->mf], o->src == 'i' || o->dst == 'i' ? ITYPES[t->mtype] : "-", t->alias, t->fold, v1, v2);
}

/* ---------------- running ---------------- */
typedef struct { ri_status st; int low32; int64_t ret; uint8_t mem[MH_BUF]; } expect;
static expect *EXP; static size_t exp_cap;
static void put_operand (char cls, int slot_off, int vi) { /* operand value into its memory slot (used when it is a memory operand or a long double) */
  uint8_t *p = mh_buf[0] + slot_off; memset (p, 0, 16);
  if (cls == 'i') memcpy (p, &IV[vi], 8);
  else if (cls == 'f') { float f = (float) FV[vi]; memcpy (p, &f, 4); }
  else if (cls == 'd') memcpy (p, &FV[vi], 8);
  else { long double l = (long double) FV[vi]; memcpy (p, &l, 10); }
}
static void set_args (const tcase *t, mh_args *a, int i1, int i2) {
  const opdesc *o = &OPS[t->op]; memset (a, 0, sizeof *a);
  mh_mem_reset ();
  a->ni = 5; a->i[0] = o->src == 'i' ? IV[i1] : 0; a->i[1] = o->src == 'i' && nsrc (o) == 2 ? IV[i2] : 0; a->i[2] = C_VAL;
  a->i[3] = (int64_t) (intptr_t) mh_buf[0]; a->i[4] = (int64_t) (intptr_t) (mh_buf[0] + Q_OFF);
  if (o->src == 'f' || o->src == 'd') { a->nd = 2; a->d[0] = FV[i1]; a->d[1] = nsrc (o) == 2 ? FV[i2] : 0; }
  put_operand (o->src, SLOT1, i1); if (nsrc (o) == 2) put_operand (o->src, SLOT2, i2);
}
static void mask_ld_padding (const tcase *t, uint8_t *mem) { /* bytes 10..15 of a stored long double are padding */
  const opdesc *o = &OPS[t->op];
  if (o->dst == 'l') { memset (mem + SLOTD + 10, 0, 6); memset (mem + SLOTD + 32 + 10, 0, 6); }
}
void drv_case (uint64_t idx) {
  const tcase *t = &CASES[idx]; const opdesc *o = &OPS[t->op]; int two = nsrc (o) == 2;
  if (!gen_text (t)) { vp_count ("skipped_inexpressible", 1); return; }
  int n1 = (t->v1 >= 0) ? 1 : grid_n (o->src), n2 = !two ? 1 : (t->v2 >= 0 || t->alias == 3) ? 1 : grid_n (o->src);
  size_t npairs = (size_t) n1 * n2;
  if (npairs > exp_cap) { exp_cap = npairs; EXP = realloc (EXP, exp_cap * sizeof (expect)); }
  uint64_t evals = 0, unspec = 0, compared = 0;
  for (int e = 0; e <= E_GEN3; e++) {
    mh_ctx mc; mh_open (&mc);
    if (mh_scan (&mc, TXT) != 0) { vp_fail ("harness-scan-error", "%s :: %s", mc.errmsg, TXT); mh_close (&mc); return; }
    MIR_item_t f = mh_find_func (&mc, "t");
    if (e == E_INTERP) { /* reference run first, on the un-linked module */
      for (int i1 = 0; i1 < n1; i1++) for (int i2 = 0; i2 < n2; i2++) {
        expect *x = &EXP[i1 * n2 + i2]; mh_args a; ri_ctx ri; ri_val res[2];
        int g1 = t->v1 >= 0 ? t->v1 : i1, g2 = t->v2 >= 0 ? t->v2 : (t->alias == 3 ? g1 : i2);
        set_args (t, &a, g1, g2);
        ri_init (&ri, mc.ctx, mh_exts, mh_n_exts, 1000); memset (res, 0, sizeof res);
        x->st = mh_ref_call (&ri, f, &a, res); x->low32 = res[0].taint; x->ret = res[0].u.i;
        if (x->st == RI_UNSUPPORTED || x->st == RI_BAD) { vp_fail ("harness-refinterp", "reference interpreter cannot run the case: %s", ri.why); ri_finish (&ri); mh_close (&mc); return; }
        memcpy (x->mem, mh_buf[0], MH_BUF); mask_ld_padding (t, x->mem);
        ri_finish (&ri);
      }
    }
    if (e == E_INTERP) { /* a function whose only instruction is unspecified for every tuple is not a well-defined program: nothing to judge */
      size_t ok = 0; for (size_t k = 0; k < npairs; k++) if (EXP[k].st == RI_OK) ok++;
      if (ok == 0) { vp_count ("cases_all_unspecified", 1); vp_count ("evaluations", npairs * 5); vp_count ("unspecified_skipped", npairs * 5); mh_close (&mc); return; }
    }
    if (mh_link (&mc, (mh_engine) e) != 0) { vp_fail ("mir-error", "engine=%s: %s", mh_engine_name[e], mc.errmsg); mh_close (&mc); return; }
    for (int i1 = 0; i1 < n1; i1++) for (int i2 = 0; i2 < n2; i2++) {
      expect *x = &EXP[i1 * n2 + i2]; mh_args a; MIR_val_t res[2]; uint8_t got[MH_BUF];
      int g1 = t->v1 >= 0 ? t->v1 : i1, g2 = t->v2 >= 0 ? t->v2 : (t->alias == 3 ? g1 : i2);
      evals++;
      if (x->st != RI_OK) { unspec++; continue; }
      set_args (t, &a, g1, g2); memset (res, 0, sizeof res);
      if (mh_call (&mc, f, &a, res) != 0) { vp_fail ("mir-error", "engine=%s: %s", mh_engine_name[e], mc.errmsg); mh_close (&mc); return; }
      memcpy (got, mh_buf[0], MH_BUF); mask_ld_padding (t, got);
      compared++;
      int bad_ret = x->low32 ? (uint32_t) res[0].i != (uint32_t) x->ret : res[0].i != x->ret;
      int bad_mem = memcmp (got, x->mem, MH_BUF) != 0;
      if (bad_mem && (o->dst == 'f' || o->dst == 'd' || o->dst == 'l')) { /* NaN results: payload and sign are unspecified */
        int off = t->pd == P_MEM ? SLOTD : SLOTD + 32; int sz = o->dst == 'f' ? 4 : o->dst == 'd' ? 8 : 10; int nan_g, nan_x;
        if (o->dst == 'f') { float p, q; memcpy (&p, got + off, 4); memcpy (&q, x->mem + off, 4); nan_g = p != p; nan_x = q != q; }
        else if (o->dst == 'd') { double p, q; memcpy (&p, got + off, 8); memcpy (&q, x->mem + off, 8); nan_g = p != p; nan_x = q != q; }
        else { long double p = 0, q = 0; memcpy (&p, got + off, 10); memcpy (&q, x->mem + off, 10); nan_g = p != p; nan_x = q != q; }
        int arith = !(strstr (o->name, "mov") || strstr (o->name, "neg"));
        if (nan_g && nan_x && arith) { uint8_t g2b[MH_BUF]; memcpy (g2b, got, MH_BUF); memcpy (g2b + off, x->mem + off, sz); bad_mem = memcmp (g2b, x->mem, MH_BUF) != 0; }
      }
      if (bad_ret || bad_mem) {
        char v1[64], v2[64] = "-"; int first = -1;
        if (o->src == 'i') { snprintf (v1, sizeof v1, "%#llx", (unsigned long long) IV[g1]); if (two) snprintf (v2, sizeof v2, "%#llx", (unsigned long long) IV[g2]); }
        else { snprintf (v1, sizeof v1, "%a", FV[g1]); if (two) snprintf (v2, sizeof v2, "%a", FV[g2]); }
        for (int k = 0; k < MH_BUF; k++) if (got[k] != x->mem[k]) { first = k; break; }
        vp_fail (bad_ret ? "wrong-result" : "wrong-memory", "engine=%s values=(%s,%s): returned %#llx, documented semantics give %#llx%s; first differing buffer byte %d (got %#x expected %#x)",
                 mh_engine_name[e], v1, v2, (unsigned long long) res[0].i, (unsigned long long) x->ret, x->low32 ? " (low 32 bits compared)" : "", first, first >= 0 ? got[first] : 0, first >= 0 ? x->mem[first] : 0);
        mh_close (&mc); goto out;
      }
    }
    mh_close (&mc);
  }
out:
  vp_count ("evaluations", evals); vp_count ("unspecified_skipped", unspec); vp_count ("compared", compared);
  if (compared) vp_nontrivial ();
  if ((idx % 997) == 0) { char d[400]; drv_describe (idx, d, sizeof d); vp_sample ("%s :: %llu value tuples x 5 engines", d, (unsigned long long) npairs); }
}
