"""C05 - calls from MIR code to native functions follow the C ABI for every prototype (driver shared with C06)."""
import os
from core import build, runner

SRCS = ["checks/c05_abi.c", "core/vp.c", "core/mirh.c", "core/refinterp.c"]

def run_mode(prop, tier, callee):
    rep = runner.Report(prop, tier, "exploration")
    exe = build.link_driver("c05", "prod", SRCS, tus=("mir", "mir-gen"), ldflags=("-rdynamic",))
    wd = runner.workdir(prop + "-batches")
    env = dict(os.environ, VP_ABI_DIR=wd, VP_ABI_BATCH="400")
    if callee: env["VP_MODE"] = "callee"
    res = runner.run_driver(exe, tier, prop, case_timeout=20, deadline=3000 if tier == "thorough" else 1200, env=env)
    rep.add_driver_result(res)
    st = res["stats"]
    what = ("a gcc-compiled caller generated from the same prototype passes canned values through a transparent assembly thunk (canaries in rbx, rbp, r12-r15; rsp, MXCSR control bits and x87 control word compared on return) to the MIR function, which records every parameter; "
            "interfaces: interpreter C interface, gen -O0..-O3, lazy gen; x 2 callee bodies (plain; 14 values live across a native call + alloca)") if callee else \
           ("MIR code calls a gcc-compiled callee generated from the same prototype, which records every argument as it sees it (and faults on a misaligned stack) and returns canned results that the MIR code stores back; engines: MIR_interp (ff-call trampolines), gen -O0..-O3")
    rep.coverage = dict(evaluations=st.get("evaluations", 0), distinct_nontrivial=res["nontrivial"],
                        rule="case = one prototype: every argument list of length <= 3 over 19 kinds (i8..u64, p, f, d, ld, blk0:24, blk1:16/8, blk2:16/8, blk3:16, blk4:16) x {no result, i64}; ni in 0..8 ints x nd in 0..10 doubles x 3 orderings followed by every kind, an int and a double; "
                             "12 single result types and the 4 two-register result pairs x 4 argument lists; 4 fixed parts x variadic tails of length <= 3 over {i64, d, ld, blk0, blk1, blk2}; return blocks x 5 argument lists; lists of 30, 64, 65, 66, 100 and 130 arguments (integers, doubles, mixed with long doubles); variadic tails of 1..14 integers / doubles / alternating / with long doubles behind an integer or a double. " + what +
                             "; evaluations = (prototype, engine) calls whose argument image, results and machine state were compared with the values derived from the prototype",
                        cases=res["done"], total_cases=res["ncases"], distinct_expected_images=len(res["outcomes"]), samples=res["samples"], exhaustive=res["exhaustive"])
    rep.assumptions = ["gcc -O1 on this machine defines the C ABI side of every call", "argument values are fixed per position and kind (high bits set in integers so that narrowing shows); the space of values is not explored"]
    return rep.finish()

def run(tier):
    return run_mode("C05", tier, False)
