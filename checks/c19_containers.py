"""C19 - container headers: explicit-state BFS of the real HTAB / bitmap / VARR / DLIST against reference models."""
from core import build, runner

def run(tier):
    rep = runner.Report("C19", tier, "model_checking")
    exe = build.link_driver("c19", "asan", ["checks/c19_containers.c", "core/vp.c"], tus=())
    res = runner.run_driver(exe, tier, "C19", case_timeout=1200 if tier == "thorough" else 300)
    rep.add_driver_result(res)
    st = res["stats"]
    rep.coverage = dict(
        states=st.get("states", 0), transitions=st.get("transitions", 0),
        traces_validated_against_impl=st.get("transitions", 0),
        distinct_canonical_states=len(res["outcomes"]),
        max_depth=st.get("max:depth", 0),
        per_container_states={k[7:]: v for k, v in st.items() if k.startswith("states:")},
        samples=res["samples"], exhaustive=res["exhaustive"],
        explanation="BFS over operation histories on the real containers (asan build, checking allocator); every transition "
                    "executes the real operation in lock-step with a reference (uint64[4] set, assoc array, plain array, id list) and "
                    "compares return values, 'changed' flags, free_func calls and full contents; states deduplicated on the full internal representation")
    rep.assumptions = ["64-bit hash of the canonical representation identifies a state (collision probability < 1e-9 at these sizes)",
                       "HTAB element serial numbers are abstracted to their rank (table code never inspects them)"]
    return rep.finish()
