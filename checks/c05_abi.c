/* C05 (VP_MODE unset): calls from MIR code to native functions follow the C ABI for every prototype.
   C06 (VP_MODE=callee): MIR functions are correct C-ABI callees and preserve the caller's machine state.
   Case = one prototype of an index-enumerated prototype space (all argument lists of length <= 3 over 19 argument kinds; saturation sweeps
   ni ints x nd doubles x ordering followed by every kind; every result type and the four register pairs; variadic tails; return blocks),
   in C06 additionally x 2 callee bodies.  For a batch of cases the other side of the call is generated as C from the same prototype and
   compiled by gcc into a shared object: in C05 a callee that copies every argument as it sees it into an image and returns a canned value,
   in C06 a caller that passes canned values through a transparent assembly thunk which plants canaries in the callee-saved registers and
   checks them, the stack pointer, MXCSR and the x87 control word on return.  The MIR side is generated as text and run under the interpreter
   and every generator level (C06: interpreter C interface, -O0..-O3, lazy).  Images, results and thunk status must equal the expected ones,
   which the driver derives from the prototype alone.  DESIGN.md §3 C05/C06. */
#define _GNU_SOURCE
#include "vp.h"
#include "mirh.h"
#include <stdlib.h>
#include <string.h>
#include <stdarg.h>
#include <unistd.h>
#include <signal.h>
#include <setjmp.h>
#include <dlfcn.h>
#include <fcntl.h>
#include <sys/wait.h>
#include <sys/time.h>

extern uint64_t vp_shard, vp_nshards;

/* ---------------- argument kinds ---------------- */
typedef enum { T_I8, T_U8, T_I16, T_U16, T_I32, T_U32, T_I64, T_U64, T_P, T_F, T_D, T_LD, T_BM, T_BI, T_BS, T_BIS, T_BSI, T_BI8, T_BS8, NT } aty;
static const char *MIR_TN[] = {"i8", "u8", "i16", "u16", "i32", "u32", "i64", "u64", "p", "f", "d", "ld", "blk", "blk1", "blk2", "blk3", "blk4", "blk1", "blk2"};
static const char *C_TN[] = {"int8_t", "uint8_t", "int16_t", "uint16_t", "int32_t", "uint32_t", "int64_t", "uint64_t", "void *", "float", "double", "long double",
                             "struct BM", "struct BI", "struct BS", "struct BIS", "struct BSI", "struct BI8", "struct BS8"};
static const char *KIND_N[] = {"i8", "u8", "i16", "u16", "i32", "u32", "i64", "u64", "p", "f", "d", "ld", "blk0:24", "blk1:16", "blk2:16", "blk3:16", "blk4:16", "blk1:8", "blk2:8"};
static const int BSIZE[] = {0, 0, 0, 0, 0, 0, 0, 0, 0, 0, 0, 0, 24, 16, 16, 16, 16, 8, 8};
static const int BCLASS[] = {0, 0, 0, 0, 0, 0, 0, 0, 0, 0, 0, 0, 0, 1, 2, 3, 4, 1, 2};
/* layout of a block as qwords: 'i' integer, 'd' double */
static const char *BLAY[] = {"", "", "", "", "", "", "", "", "", "", "", "", "iii", "ii", "dd", "id", "di", "i", "d"};
static int is_int (int t) { return t <= T_P; }
static int is_blk (int t) { return t >= T_BM; }
static const char *C_DEFS = "#include <stdint.h>\n#include <string.h>\n#include <stdarg.h>\n"
  "struct BM { int64_t a[3]; }; struct BI { int64_t a, b; }; struct BS { double a, b; }; struct BIS { int64_t a; double b; }; struct BSI { double a; int64_t b; }; struct BI8 { int64_t a; }; struct BS8 { double a; };\n"
  "struct RII { int64_t a, b; }; struct RDD { double a, b; }; struct RID { int64_t a; double b; }; struct RDI { double a; int64_t b; };\n"
  "extern char abi_img[]; extern void *chk_target; extern int64_t chk_status; extern char chk_thunk[];\n";

typedef struct { int n; uint8_t t[140]; int vfrom; /* index of the first variadic argument, -1 if none */ int nres; uint8_t r[2]; int rblk; int body; } proto;
#define SLOT 32
#define IMG_SIZE 8192
#define BODY_SLOT 250
uint8_t abi_img[IMG_SIZE] __attribute__ ((aligned (16)));
static uint8_t exp_img[IMG_SIZE], buf[4096] __attribute__ ((aligned (16)));

/* ---------------- the transparent checking thunk (C06) ---------------- */
void *chk_target; int64_t chk_status; uint64_t chk_sv[8]; uint64_t chk_ret; uint32_t chk_mx0, chk_mx1; uint16_t chk_cw0, chk_cw1;
extern char chk_thunk[];
__asm__ (".text\n.globl chk_thunk\n.type chk_thunk,@function\nchk_thunk:\n"
         "  popq chk_ret(%rip)\n"
         "  movq %rbx, chk_sv+0(%rip)\n  movq %rbp, chk_sv+8(%rip)\n  movq %r12, chk_sv+16(%rip)\n  movq %r13, chk_sv+24(%rip)\n  movq %r14, chk_sv+32(%rip)\n  movq %r15, chk_sv+40(%rip)\n  movq %rsp, chk_sv+48(%rip)\n"
         "  stmxcsr chk_mx0(%rip)\n  fnstcw chk_cw0(%rip)\n"
         "  movabsq $0x1111111111111111, %rbx\n  movabsq $0x2222222222222222, %rbp\n  movabsq $0x3333333333333333, %r12\n  movabsq $0x4444444444444444, %r13\n  movabsq $0x5555555555555555, %r14\n  movabsq $0x6666666666666666, %r15\n"
         "  call *chk_target(%rip)\n"
         "  xorl %r10d, %r10d\n"
         "  movabsq $0x1111111111111111, %r11\n  cmpq %r11, %rbx\n  je 1f\n  orq $1, %r10\n1:\n"
         "  movabsq $0x2222222222222222, %r11\n  cmpq %r11, %rbp\n  je 1f\n  orq $2, %r10\n1:\n"
         "  movabsq $0x3333333333333333, %r11\n  cmpq %r11, %r12\n  je 1f\n  orq $4, %r10\n1:\n"
         "  movabsq $0x4444444444444444, %r11\n  cmpq %r11, %r13\n  je 1f\n  orq $8, %r10\n1:\n"
         "  movabsq $0x5555555555555555, %r11\n  cmpq %r11, %r14\n  je 1f\n  orq $16, %r10\n1:\n"
         "  movabsq $0x6666666666666666, %r11\n  cmpq %r11, %r15\n  je 1f\n  orq $32, %r10\n1:\n"
         "  cmpq chk_sv+48(%rip), %rsp\n  je 1f\n  orq $64, %r10\n1:\n"
         "  stmxcsr chk_mx1(%rip)\n  fnstcw chk_cw1(%rip)\n"
         "  movl chk_mx0(%rip), %r11d\n  xorl chk_mx1(%rip), %r11d\n  andl $0xffc0, %r11d\n  je 1f\n  orq $128, %r10\n1:\n"
         "  movzwl chk_cw0(%rip), %r11d\n  xorw chk_cw1(%rip), %r11w\n  je 1f\n  orq $256, %r10\n1:\n"
         "  movq %r10, chk_status(%rip)\n"
         "  movq chk_sv+0(%rip), %rbx\n  movq chk_sv+8(%rip), %rbp\n  movq chk_sv+16(%rip), %r12\n  movq chk_sv+24(%rip), %r13\n  movq chk_sv+32(%rip), %r14\n  movq chk_sv+40(%rip), %r15\n  movq chk_sv+48(%rip), %rsp\n"
         "  pushq chk_ret(%rip)\n  ret\n.size chk_thunk, .-chk_thunk\n");

/* ---------------- enumeration ---------------- */
static int callee_mode, thorough_p;
static uint64_t G1, G2, G3, G4, G5, G6, G7, NPROTO;
static const int LONG_N[6] = {30, 64, 65, 66, 100, 130};
#define VT_N 6
static const uint8_t VT[VT_N] = {T_I64, T_D, T_LD, T_BM, T_BI, T_BS};
static const uint8_t RS1[12] = {T_I8, T_U8, T_I16, T_U16, T_I32, T_U32, T_I64, T_U64, T_P, T_F, T_D, T_LD};
static uint64_t ipow (uint64_t b, int e) { uint64_t r = 1; while (e--) r *= b; return r; }
static void add_arg (proto *p, int t) { if (p->n < 140) p->t[p->n++] = t; }
static void decode (uint64_t idx, proto *p) {
  memset (p, 0, sizeof *p); p->vfrom = -1;
  if (callee_mode) { p->body = idx % 2; idx /= 2; }
  if (idx < G1) { int res = idx % 2; idx /= 2; int len = 0; while (idx >= ipow (NT, len)) { idx -= ipow (NT, len); len++; }
    for (int i = 0; i < len; i++) { add_arg (p, idx % NT); idx /= NT; }
    if (res) { p->nres = 1; p->r[0] = T_I64; } return; }
  idx -= G1;
  if (idx < G2) { int x = idx % NT; idx /= NT; int pat = idx % 3; idx /= 3; int nd = idx % 11, ni = idx / 11; int i = ni, d = nd;
    if (pat == 0) { while (i--) add_arg (p, T_I64); while (d--) add_arg (p, T_D); }
    else if (pat == 1) { while (d--) add_arg (p, T_D); while (i--) add_arg (p, T_I64); }
    else while (i > 0 || d > 0) { if (i > 0) { add_arg (p, T_I64); i--; } if (d > 0) { add_arg (p, T_D); d--; } }
    add_arg (p, x); add_arg (p, T_I64); add_arg (p, T_D); p->nres = 1; p->r[0] = T_I64; return; }
  idx -= G2;
  if (idx < G3) { int as = idx % 4, rs = idx / 4;
    if (rs < 12) { p->nres = 1; p->r[0] = RS1[rs]; } else { p->nres = 2; p->r[0] = (rs - 12) & 1 ? T_D : T_I64; p->r[1] = (rs - 12) & 2 ? T_D : T_I64; }
    if (as == 1) add_arg (p, T_I64); else if (as == 2) add_arg (p, T_D); else if (as == 3) { for (int i = 0; i < 7; i++) add_arg (p, T_I64); for (int i = 0; i < 9; i++) add_arg (p, T_D); }
    return; }
  idx -= G3;
  if (idx < G4) { int fx = idx % 4; idx /= 4; int len = 0; while (idx >= ipow (VT_N, len)) { idx -= ipow (VT_N, len); len++; }
    if (fx == 0) add_arg (p, T_I64); else if (fx == 1) add_arg (p, T_D); else if (fx == 2) { add_arg (p, T_I64); add_arg (p, T_D); } else { add_arg (p, T_P); for (int i = 0; i < 5; i++) add_arg (p, T_I64); }
    p->vfrom = p->n; for (int i = 0; i < len; i++) { add_arg (p, VT[idx % VT_N]); idx /= VT_N; }
    p->nres = 1; p->r[0] = T_I64; return; }
  idx -= G4;
  if (idx >= G5 + G6) { idx -= G5 + G6; int n = idx % 14 + 1, k = idx / 14 % 4, fx = (int) (idx / 56); /* long variadic tails: the register save area runs out inside the tail */
    add_arg (p, fx ? T_D : T_I64); p->vfrom = 1;
    for (int i = 0; i < n; i++) add_arg (p, k == 0 ? T_I64 : k == 1 ? T_D : k == 2 ? (i % 2 ? T_D : T_I64) : (i % 3 == 2 ? T_LD : i % 3 ? T_D : T_I64));
    p->nres = 1; p->r[0] = T_I64; return; }
  if (idx >= G5) { idx -= G5; int n = LONG_N[idx % 6], k = (int) (idx / 6); /* long argument lists: all integers, all doubles, alternating with a long double every 16th */
    for (int i = 0; i < n; i++) add_arg (p, k == 0 ? T_I64 : k == 1 ? T_D : i % 16 == 15 ? T_LD : i % 2 ? T_D : T_I32);
    p->nres = 1; p->r[0] = T_I64; return; }
  p->rblk = 1;
  if (idx == 1) add_arg (p, T_I64); else if (idx == 2) add_arg (p, T_D); else if (idx == 3) add_arg (p, T_BI); else if (idx == 4) for (int i = 0; i < 6; i++) add_arg (p, T_I64);
}
void drv_init (int thorough) {
  thorough_p = thorough; const char *m = getenv ("VP_MODE"); callee_mode = m && !strcmp (m, "callee");
  G1 = 2 * (1 + NT + NT * NT + (uint64_t) NT * NT * NT); G2 = 9 * 11 * 3 * NT; G3 = 16 * 4; G4 = 4 * (1 + VT_N + VT_N * VT_N + VT_N * VT_N * VT_N); G5 = 5; G6 = 6 * 3; G7 = 14 * 4 * 2;
  NPROTO = G1 + G2 + G3 + G4 + G5 + G6 + G7;
}
uint64_t drv_ncases (void) { return NPROTO * (callee_mode ? 2 : 1); }
void drv_describe (uint64_t idx, char *b, size_t n) {
  proto p; decode (idx, &p); size_t k = snprintf (b, n, "%s proto=(", callee_mode ? "C06" : "C05");
  if (p.rblk) k += snprintf (b + k, n - k, "rblk:24%s", p.n ? "," : "");
  if (p.n > 26) k += snprintf (b + k, n - k, "%d arguments: %s,%s,...,%s", p.n, KIND_N[p.t[0]], KIND_N[p.t[1]], KIND_N[p.t[15]]);
  else for (int i = 0; i < p.n && k < n; i++) k += snprintf (b + k, n - k, "%s%s%s", i == p.vfrom ? "...," : "", KIND_N[p.t[i]], i + 1 < p.n ? "," : "");
  if (p.vfrom == p.n) k += snprintf (b + k, n - k, "%s...", p.n ? "," : "");
  k += snprintf (b + k, n - k, ")->(");
  for (int i = 0; i < p.nres && k < n; i++) k += snprintf (b + k, n - k, "%s%s", KIND_N[p.r[i]], i + 1 < p.nres ? "," : "");
  k += snprintf (b + k, n - k, ")"); if (callee_mode) snprintf (b + k, n - k, " body=%s", p.body ? "pressure+call+alloca" : "plain");
}

/* ---------------- canned values ---------------- */
static uint64_t ival (int k) { uint64_t v = 0x8091a2b3c4d5e6f7ull; int r = (k * 8) & 63; v = r ? (v << r) | (v >> (64 - r)) : v; return v ^ (uint64_t) (k * 0x0101); }
static float fval (int k) { return k * 1.25f + 0.5f; }
static double dval (int k) { return k * 2.5 - 1.0; }
static long double lval (int k) { return k * 3.5L + 0.25L; }
static uint64_t rival (int j) { return j ? 0x99aabbccddeeff01ull : 0x8877665544332291ull; }
/* value of an integer kind as the receiving side must see it (in a 64-bit register / as a C value widened to 64 bits) */
static int64_t narrow (int t, uint64_t raw) {
  switch (t) { case T_I8: return (int8_t) raw; case T_U8: return (uint8_t) raw; case T_I16: return (int16_t) raw; case T_U16: return (uint16_t) raw; case T_I32: return (int32_t) raw; case T_U32: return (uint32_t) raw; default: return (int64_t) raw; }
}
static void blk_bytes (int t, int k, uint8_t *out) { /* contents of block argument k */
  const char *l = BLAY[t];
  for (int q = 0; l[q]; q++) { if (l[q] == 'i') { uint64_t v = ival (k * 3 + q + 40); memcpy (out + 8 * q, &v, 8); } else { double d = dval (k * 3 + q + 40); memcpy (out + 8 * q, &d, 8); } }
}
static void slot_expected (int t, int k, uint8_t *slot) { /* what the receiving side records for argument k */
  if (is_int (t)) { int64_t v = narrow (t, ival (k)); memcpy (slot, &v, 8); }
  else if (t == T_F) { float f = fval (k); memcpy (slot, &f, 4); } else if (t == T_D) { double d = dval (k); memcpy (slot, &d, 8); } else if (t == T_LD) { long double l = lval (k); memcpy (slot, &l, 10); }
  else blk_bytes (t, k, slot);
}

/* ---------------- C text for the native side ---------------- */
static char *CT; static size_t ctl, ctcap;
static void C (const char *fmt, ...) {
  va_list ap; for (;;) { va_start (ap, fmt); int n = vsnprintf (CT + ctl, ctcap - ctl, fmt, ap); va_end (ap); if ((size_t) n < ctcap - ctl) { ctl += n; return; } ctcap = ctcap ? ctcap * 2 : 1 << 16; CT = realloc (CT, ctcap); }
}
static const char *res_ctype (const proto *p) {
  if (p->rblk) return "struct BM"; if (p->nres == 0) return "void"; if (p->nres == 1) return C_TN[p->r[0]];
  return p->r[0] == T_I64 ? (p->r[1] == T_I64 ? "struct RII" : "struct RID") : (p->r[1] == T_I64 ? "struct RDI" : "struct RDD");
}
static void c_value (int t, int k) { /* C expression of the canned value of argument k */
  if (is_int (t)) { if (t == T_P) C ("(void *) 0x%llxull", (unsigned long long) ival (k)); else C ("(%s) 0x%llxull", C_TN[t], (unsigned long long) ival (k)); }
  else if (t == T_F) C ("%af", (double) fval (k)); else if (t == T_D) C ("%a", dval (k)); else if (t == T_LD) C ("%LaL", lval (k));
  else { C ("(%s) {", C_TN[t]); if (t == T_BM) C ("{");
    for (int q = 0; BLAY[t][q]; q++) { if (q) C (", "); if (BLAY[t][q] == 'i') C ("(int64_t) 0x%llxull", (unsigned long long) ival (k * 3 + q + 40)); else C ("%a", dval (k * 3 + q + 40)); }
    if (t == T_BM) C ("}"); C ("}"); }
}
static void c_result_value (const proto *p) {
  if (p->rblk) { C ("(struct BM) {{(int64_t) 0x%llxull, (int64_t) 0x%llxull, (int64_t) 0x%llxull}}", (unsigned long long) ival (70), (unsigned long long) ival (71), (unsigned long long) ival (72)); return; }
  for (int j = 0; j < p->nres; j++) { int t = p->r[j]; if (j) C (", ");
    if (is_int (t)) { if (t == T_P) C ("(void *) 0x%llxull", (unsigned long long) rival (j)); else C ("(%s) 0x%llxull", C_TN[t], (unsigned long long) rival (j)); }
    else if (t == T_F) C ("%af", 1.5 + j); else if (t == T_D) C ("%a", -2.25 - j); else C ("%LaL", 3.75L + j); }
}
static void c_record (int t, int k, const char *name) { /* copy what the C side sees of argument k into the image */
  if (t == T_P) C ("  { int64_t v = (int64_t) (intptr_t) %s; memcpy (abi_img + %d, &v, 8); }\n", name, k * SLOT);
  else if (is_int (t)) C ("  { int64_t v = (int64_t) %s; memcpy (abi_img + %d, &v, 8); }\n", name, k * SLOT);
  else C ("  memcpy (abi_img + %d, &%s, %d);\n", k * SLOT, name, t == T_F ? 4 : t == T_D ? 8 : t == T_LD ? 10 : BSIZE[t]);
}
static void c_params (const proto *p, int upto, int with_names) {
  for (int i = 0; i < upto; i++) { if (i) C (", "); if (with_names) C ("%s a%d", C_TN[p->t[i]], i); else C ("%s", C_TN[p->t[i]]); }
}
static void gen_native (uint64_t idx, const proto *p) {
  int nfix = p->vfrom >= 0 ? p->vfrom : p->n;
  if (!callee_mode) { /* callee: records its arguments, returns the canned result */
    C ("%s cal_%llu (", res_ctype (p), (unsigned long long) idx); c_params (p, nfix, 1);
    if (p->vfrom >= 0) C ("%s...", nfix ? ", " : ""); else if (nfix == 0) C ("void");
    C (") {\n  { volatile double __attribute__ ((aligned (16))) al[2]; __asm__ volatile (\"movaps %%%%xmm15, %%0\" : \"=m\" (al)); } /* faults if the stack is not ABI-aligned at the call */\n");
    for (int i = 0; i < nfix; i++) { char nm[16]; snprintf (nm, sizeof nm, "a%d", i); c_record (p->t[i], i, nm); }
    if (p->vfrom >= 0) { C ("  va_list ap; va_start (ap, a%d);\n", nfix - 1);
      for (int i = nfix; i < p->n; i++) { C ("  { %s v%d = va_arg (ap, %s);\n  ", C_TN[p->t[i]], i, C_TN[p->t[i]]); char nm[16]; snprintf (nm, sizeof nm, "v%d", i); c_record (p->t[i], i, nm); C ("  }\n"); }
      C ("  va_end (ap);\n"); }
    if (p->rblk || p->nres == 1) { C ("  return "); c_result_value (p); C (";\n"); }
    else if (p->nres == 2) { C ("  return (%s) {", res_ctype (p)); c_result_value (p); C ("};\n"); }
    C ("}\n");
  } else { /* caller: passes the canned values through the checking thunk, records the result */
    C ("int64_t call_%llu (void *fn, char *res) {\n  chk_target = fn;\n  ", (unsigned long long) idx);
    if (p->rblk || p->nres) C ("%s r = ", res_ctype (p));
    C ("((%s (*) (", res_ctype (p)); c_params (p, nfix, 0); if (p->vfrom >= 0) C ("%s...", nfix ? ", " : ""); else if (nfix == 0) C ("void");
    C (")) chk_thunk) (");
    for (int i = 0; i < p->n; i++) { if (i) C (", "); c_value (p->t[i], i); }
    C (");\n");
    if (p->rblk) C ("  memcpy (res, &r, 24);\n");
    else if (p->nres == 1) { if (p->r[0] == T_P) C ("  { int64_t v = (int64_t) (intptr_t) r; memcpy (res, &v, 8); }\n"); else if (is_int (p->r[0])) C ("  { int64_t v = (int64_t) r; memcpy (res, &v, 8); }\n"); else C ("  memcpy (res, &r, %d);\n", p->r[0] == T_F ? 4 : p->r[0] == T_D ? 8 : 10); }
    else if (p->nres == 2) C ("  memcpy (res, &r.a, 8); memcpy (res + 16, &r.b, 8);\n");
    C ("  return chk_status;\n}\n");
  }
}

/* ---------------- batches ---------------- */
static char workdir[300] = "/tmp"; static uint64_t batch_size = 400; static uint64_t *BI; static size_t nB; static void *so; static int batch_no;
static void build_batch (uint64_t first) {
  struct itimerval saved, off = {{0, 0}, {0, 0}}; setitimer (ITIMER_REAL, &off, &saved);
  if (so) { dlclose (so); so = NULL; } free (BI); nB = 0; batch_no++;
  uint64_t n = drv_ncases (), step = vp_nshards ? vp_nshards : 1, cnt = vp_verbose ? 1 : batch_size; BI = calloc (cnt, sizeof *BI);
  ctl = 0; C ("%s", C_DEFS);
  for (uint64_t i = first; i < n && nB < cnt; i += step) { proto p; decode (i, &p); gen_native (i, &p); BI[nB++] = i; }
  char cfile[400], sofile[400], errfile[400];
  snprintf (cfile, sizeof cfile, "%s/abi_%d_%d.c", workdir, (int) getpid (), batch_no); snprintf (sofile, sizeof sofile, "%s/abi_%d_%d.so", workdir, (int) getpid (), batch_no); snprintf (errfile, sizeof errfile, "%s/abi_%d_%d.err", workdir, (int) getpid (), batch_no);
  FILE *f = fopen (cfile, "w"); if (!f) { perror (cfile); exit (3); } fwrite (CT, 1, ctl, f); fclose (f);
  char ds[4][100]; snprintf (ds[0], 100, "-Wl,--defsym,\"abi_img\"=%p", (void *) abi_img); snprintf (ds[1], 100, "-Wl,--defsym,\"chk_target\"=%p", (void *) &chk_target);
  snprintf (ds[2], 100, "-Wl,--defsym,\"chk_status\"=%p", (void *) &chk_status); snprintf (ds[3], 100, "-Wl,--defsym,\"chk_thunk\"=%p", (void *) chk_thunk);
  pid_t pid = fork ();
  if (pid == 0) { int fd = open (errfile, O_WRONLY | O_CREAT | O_TRUNC, 0644); dup2 (fd, 2); dup2 (fd, 1);
    execlp ("gcc", "gcc", "-O1", "-w", "-fno-strict-aliasing", "-shared", "-fPIC", "-o", sofile, cfile, ds[0], ds[1], ds[2], ds[3], (char *) NULL); _exit (127); }
  int status; waitpid (pid, &status, 0);
  if (!(WIFEXITED (status) && WEXITSTATUS (status) == 0)) { fprintf (stderr, "abi: gcc failed on %s; see %s\n", cfile, errfile); exit (3); }
  so = dlopen (sofile, RTLD_NOW | RTLD_LOCAL); if (!so) { fprintf (stderr, "abi: dlopen: %s\n", dlerror ()); exit (3); }
  unlink (sofile); unlink (errfile); if (!getenv ("VP_ABI_KEEP")) unlink (cfile);
  setitimer (ITIMER_REAL, &saved, NULL);
}
static int in_batch (uint64_t idx) { for (size_t i = 0; i < nB; i++) if (BI[i] == idx) return 1; return 0; }

/* ---------------- MIR text ---------------- */
static char PT[65536]; static size_t ptl;
static void S (const char *fmt, ...) { va_list ap; va_start (ap, fmt); ptl += vsnprintf (PT + ptl, sizeof PT - ptl, fmt, ap); va_end (ap); if (ptl >= sizeof PT) ptl = sizeof PT - 1; }
static char regcls (int t) { return is_int (t) || is_blk (t) ? 'i' : t == T_F ? 'f' : t == T_D ? 'd' : 'l'; }
static const char *regty (int t) { return is_int (t) || is_blk (t) ? "i64" : t == T_F ? "f" : t == T_D ? "d" : "ld"; }
static void mir_arg_decl (const proto *p, int i, int named) { /* one prototype / function parameter */
  int t = p->t[i];
  if (is_blk (t)) S ("%s:%d(a%d)", MIR_TN[t], BSIZE[t], i); else if (named) S ("%s:a%d", MIR_TN[t], i); else S ("%s:a%d", MIR_TN[t], i);
}
static void mir_sig (const proto *p) { /* result types and parameters, shared by proto and func */
  int first = 1;
  for (int j = 0; j < p->nres; j++) { S ("%s%s", first ? "" : ", ", MIR_TN[p->r[j]]); first = 0; }
  if (p->rblk) { S ("%srblk:24(rb)", first ? "" : ", "); first = 0; }
  int nfix = p->vfrom >= 0 ? p->vfrom : p->n;
  for (int i = 0; i < nfix; i++) { S ("%s", first ? "" : ", "); first = 0; mir_arg_decl (p, i, 1); }
  if (p->vfrom >= 0) S ("%s...", first ? "" : ", ");
}
static void fp_lit (int t, int k, int res) {
  if (t == T_F) S ("%#.9gf", res ? 1.5 + k : (double) fval (k)); else if (t == T_D) S ("%#.17g", res ? -2.25 - k : dval (k)); else S ("%#.21LgL", res ? 3.75L + k : lval (k));
}
#define BLK_OFF 1024 /* block contents live in buf + BLK_OFF + 32*k */
#define RES_OFF 0    /* results are stored to buf + 16*j */
static void render_caller (uint64_t idx, const proto *p) { /* C05: MIR code calling the native callee */
  ptl = 0; S ("m: module\nimport cal_%llu\np: proto ", (unsigned long long) idx); mir_sig (p); S ("\nf: func i64, p:buf\n  local i64:rb");
  for (int i = 0; i < p->n; i++) S (", %s:a%d", regty (p->t[i]), i);
  for (int j = 0; j < p->nres; j++) S (", %s:r%d", regty (p->r[j]), j);
  S ("\n");
  for (int i = 0; i < p->n; i++) { int t = p->t[i];
    if (is_int (t)) S ("  mov a%d, %lld\n", i, (long long) ival (i));
    else if (is_blk (t)) S ("  add a%d, buf, %d\n", i, BLK_OFF + 32 * i);
    else { S ("  %smov a%d, ", t == T_F ? "f" : t == T_D ? "d" : "ld", i); fp_lit (t, i, 0); S ("\n"); } }
  if (p->rblk) S ("  add rb, buf, 512\n");
  S ("  call p, cal_%llu", (unsigned long long) idx);
  for (int j = 0; j < p->nres; j++) S (", r%d", j);
  if (p->rblk) S (", rblk:24(rb)");
  for (int i = 0; i < p->n; i++) { if (is_blk (p->t[i])) S (", %s:%d(a%d)", MIR_TN[p->t[i]], BSIZE[p->t[i]], i); else S (", a%d", i); }
  S ("\n");
  for (int j = 0; j < p->nres; j++) { char c = regcls (p->r[j]); S ("  %smov %s:%d(buf), r%d\n", c == 'i' ? "" : c == 'f' ? "f" : c == 'd' ? "d" : "ld", c == 'i' ? "i64" : c == 'f' ? "f" : c == 'd' ? "d" : "ld", RES_OFF + 16 * j, j); }
  S ("  ret 0\nendfunc\nendmodule\n");
}
static void store_param (const proto *p, int i, const char *src) { /* MIR callee: record parameter i (register src; for blocks src holds the address) */
  int t = p->t[i];
  if (is_int (t)) S ("  mov i64:%d(ip), %s\n", i * SLOT, src);
  else if (t == T_F) S ("  fmov f:%d(ip), %s\n", i * SLOT, src); else if (t == T_D) S ("  dmov d:%d(ip), %s\n", i * SLOT, src); else if (t == T_LD) S ("  ldmov ld:%d(ip), %s\n", i * SLOT, src);
  else for (int q = 0; q < BSIZE[t] / 8; q++) S ("  mov t0, i64:%d(%s)\n  mov i64:%d(ip), t0\n", q * 8, src, i * SLOT + q * 8);
}
static void render_callee (uint64_t idx, const proto *p) { /* C06: MIR function called by native code */
  int nfix = p->vfrom >= 0 ? p->vfrom : p->n;
  ptl = 0; S ("m: module\nimport abi_img, enat\np_nat: proto i64, i64:x\nf: func "); mir_sig (p);
  S ("\n  local i64:ip, i64:t0, i64:va, i64:vp, i64:al, f:vf, d:vd, ld:vl");
  for (int k = 0; k < 14; k++) S (", i64:w%d", k);
  S ("\n  mov ip, abi_img\n");
  if (p->body) { /* values that stay live across a native call: callee-saved registers or spill slots, and an alloca block */
    S ("  alloca al, 48\n  mov i64:(al), 77\n  mov i64:40(al), 99\n  and t0, al, 15\n  mov i64:%d(ip), t0\n", BODY_SLOT * SLOT);
    for (int k = 0; k < 14; k++) S ("  add w%d, ip, %d\n", k, k * 17 + 3);
    S ("  call p_nat, enat, t0, w3\n");
    S ("  mov t0, 0\n"); for (int k = 0; k < 14; k++) S ("  sub w%d, w%d, ip\n  mul t0, t0, 3\n  add t0, t0, w%d\n", k, k, k);
    S ("  add t0, t0, i64:(al)\n  add t0, t0, i64:40(al)\n  mov i64:%d(ip), t0\n", (BODY_SLOT + 1) * SLOT);
  }
  for (int i = 0; i < nfix; i++) { char nm[16]; snprintf (nm, sizeof nm, "a%d", i); store_param (p, i, nm); }
  if (p->vfrom >= 0) {
    S ("  alloca va, 32\n  va_start va\n");
    for (int i = nfix; i < p->n; i++) { int t = p->t[i];
      if (t == T_I64) S ("  va_arg vp, va, i64:0\n  mov t0, i64:(vp)\n  mov i64:%d(ip), t0\n", i * SLOT);
      else if (t == T_D) S ("  va_arg vp, va, d:0\n  dmov vd, d:(vp)\n  dmov d:%d(ip), vd\n", i * SLOT);
      else if (t == T_LD) S ("  va_arg vp, va, ld:0\n  ldmov vl, ld:(vp)\n  ldmov ld:%d(ip), vl\n", i * SLOT);
      else { S ("  alloca vp, 32\n  va_block_arg vp, va, %d, %d\n", BSIZE[t], BCLASS[t]); for (int q = 0; q < BSIZE[t] / 8; q++) S ("  mov t0, i64:%d(vp)\n  mov i64:%d(ip), t0\n", q * 8, i * SLOT + q * 8); } }
    S ("  va_end va\n");
  }
  if (p->rblk) S ("  mov i64:(rb), %lld\n  mov i64:8(rb), %lld\n  mov i64:16(rb), %lld\n  ret\n", (long long) ival (70), (long long) ival (71), (long long) ival (72));
  else if (p->nres == 0) S ("  ret\n");
  else { S ("  ret "); for (int j = 0; j < p->nres; j++) { if (j) S (", "); if (is_int (p->r[j])) S ("%lld", (long long) rival (j)); else fp_lit (p->r[j], j, 1); } S ("\n"); }
  S ("endfunc\nendmodule\n");
}
static int64_t enat (int64_t x) { return x * 5 + 2; }

/* ---------------- faults in generated / native code are verdicts ---------------- */
static sigjmp_buf fault_jb; static volatile int fault_armed, fault_sig;
static void on_fault (int sig) { if (!fault_armed) { signal (sig, SIG_DFL); raise (sig); return; } fault_sig = sig; fault_armed = 0; siglongjmp (fault_jb, 1); }
static void install_fault_handlers (void) {
  static char alt[1 << 16]; stack_t ss = {alt, 0, sizeof alt}; sigaltstack (&ss, NULL);
  struct sigaction sa; memset (&sa, 0, sizeof sa); sa.sa_handler = on_fault; sa.sa_flags = SA_ONSTACK | SA_NODEFER; sigemptyset (&sa.sa_mask);
  sigaction (SIGSEGV, &sa, NULL); sigaction (SIGBUS, &sa, NULL); sigaction (SIGFPE, &sa, NULL); sigaction (SIGILL, &sa, NULL);
}

static int first_diff (const uint8_t *a, const uint8_t *b, size_t n) { for (size_t i = 0; i < n; i++) if (a[i] != b[i]) return (int) i; return -1; }
static void hex (char *out, const uint8_t *p, int n) { for (int i = 0; i < n; i++) sprintf (out + 2 * i, "%02x", p[i]); }

void drv_case (uint64_t idx) {
  static int inited; if (!inited) { inited = 1; install_fault_handlers (); const char *wd = getenv ("VP_ABI_DIR"); if (wd) snprintf (workdir, sizeof workdir, "%s", wd); const char *bs = getenv ("VP_ABI_BATCH"); if (bs) batch_size = strtoull (bs, NULL, 10); }
  if (!in_batch (idx)) build_batch (idx);
  proto p; decode (idx, &p);
  char sym[64]; snprintf (sym, sizeof sym, callee_mode ? "call_%llu" : "cal_%llu", (unsigned long long) idx);
  void *native = dlsym (so, sym); if (!native) { vp_fail ("harness", "native side %s missing", sym); return; }
  if (callee_mode) render_callee (idx, &p); else render_caller (idx, &p);
  if (vp_verbose) { fputs (PT, stderr); }
  /* expected image and results */
  memset (exp_img, 0xEE, sizeof exp_img);
  for (int i = 0; i < p.n; i++) slot_expected (p.t[i], i, exp_img + i * SLOT);
  uint8_t exp_res[48]; memset (exp_res, 0xEE, sizeof exp_res);
  if (p.rblk) { for (int q = 0; q < 3; q++) { uint64_t v = ival (70 + q); memcpy (exp_res + 8 * q, &v, 8); } }
  else for (int j = 0; j < p.nres; j++) { int t = p.r[j]; uint8_t *s = exp_res + 16 * j;
    if (is_int (t)) { int64_t v = narrow (t, rival (j)); memcpy (s, &v, 8); } else if (t == T_F) { float f = 1.5f + j; memcpy (s, &f, 4); } else if (t == T_D) { double d = -2.25 - j; memcpy (s, &d, 8); } else { long double l = 3.75L + j; memcpy (s, &l, 10); } }
  if (callee_mode && p.body) { int64_t z = 0, acc = 0; memcpy (exp_img + BODY_SLOT * SLOT, &z, 8); for (int k = 0; k < 14; k++) acc = acc * 3 + (k * 17 + 3); acc += 77 + 99; memcpy (exp_img + (BODY_SLOT + 1) * SLOT, &acc, 8); }
  static const mh_engine ENG5[] = {E_INTERP, E_GEN0, E_GEN1, E_GEN2, E_GEN3}, ENG6[] = {E_ISHIM, E_GEN0, E_GEN1, E_GEN2, E_GEN3, E_LAZY};
  int ne = callee_mode ? 6 : 5; uint64_t compared = 0;
  for (int ei = 0; ei < ne; ei++) {
    mh_engine e = callee_mode ? ENG6[ei] : ENG5[ei]; const char *en = mh_engine_name[e];
    mh_ctx mc; mh_open (&mc);
    if (mh_scan (&mc, PT) != 0) { vp_fail ("harness-scan-error", "%s", mc.errmsg); mh_close (&mc); return; }
    if (callee_mode) { MIR_load_external (mc.ctx, "abi_img", abi_img); MIR_load_external (mc.ctx, "enat", (void *) enat); } else MIR_load_external (mc.ctx, sym, native);
    if (mh_link (&mc, e) != 0) { vp_fail ("mir-error", "engine=%s: %s", en, mc.errmsg); mh_close (&mc); return; }
    MIR_item_t f = mh_find_func (&mc, "f");
    memset (abi_img, 0xEE, sizeof abi_img); memset (buf, 0xEE, sizeof buf);
    for (int i = 0; i < p.n; i++) if (is_blk (p.t[i])) blk_bytes (p.t[i], i, buf + BLK_OFF + 32 * i);
    uint8_t got_res[48]; memset (got_res, 0xEE, sizeof got_res); int64_t status = 0;
    mh_cur = &mc; mh_arm (1);
    if (setjmp (mh_err_jb) != 0) { mh_arm (0); vp_fail ("mir-error", "engine=%s: %s", en, mc.errmsg); mh_close (&mc); return; }
    if (sigsetjmp (fault_jb, 1) == 0) {
      fault_armed = 1;
      if (!callee_mode) {
        if (e == E_INTERP) { MIR_val_t v, r; v.a = buf; r.i = 0; MIR_interp_arr (mc.ctx, f, &r, 1, &v); } else ((int64_t (*) (void *)) f->addr) (buf);
        memcpy (got_res, p.rblk ? buf + 512 : buf + RES_OFF, p.rblk ? 24 : 32);
      } else status = ((int64_t (*) (void *, char *)) native) (f->addr, (char *) got_res);
      fault_armed = 0;
    } else { mh_arm (0); vp_fail ("fault-during-call", "engine=%s: signal %d while the call was in progress (a misaligned stack at the native callee faults on purpose)", en, fault_sig); mh_close (&mc); goto out; }
    mh_arm (0); compared++;
    int d = first_diff (abi_img, exp_img, (size_t) (callee_mode ? 256 : p.n) * SLOT);
    if (d >= 0) { char a[40], b[40]; int k = d / SLOT; hex (a, abi_img + k * SLOT, 16); hex (b, exp_img + k * SLOT, 16);
      vp_fail (callee_mode ? "callee-sees-wrong-parameter" : "native-callee-sees-wrong-argument", "engine=%s: %s #%d%s: first 16 bytes seen %s, expected %s", en, k >= BODY_SLOT ? "body slot" : "argument", k, k < p.n ? KIND_N[p.t[k]] : "", a, b); mh_close (&mc); goto out; }
    int rn = p.rblk ? 24 : p.nres * 16;
    for (int j = 0; j < (p.rblk ? 1 : p.nres); j++) { int len = p.rblk ? 24 : is_int (p.r[j]) ? 8 : p.r[j] == T_F ? 4 : p.r[j] == T_D ? 8 : 10;
      if (memcmp (got_res + 16 * j, exp_res + 16 * j, len)) { char a[60], b[60]; hex (a, got_res + 16 * j, len > 24 ? 24 : len); hex (b, exp_res + 16 * j, len > 24 ? 24 : len);
        vp_fail ("wrong-result", "engine=%s: result #%d received %s, expected %s", en, j, a, b); mh_close (&mc); goto out; } }
    (void) rn;
    if (callee_mode && status) { vp_fail ("machine-state-not-preserved", "engine=%s: thunk status %#llx (1 rbx, 2 rbp, 4 r12, 8 r13, 16 r14, 32 r15, 64 rsp, 128 mxcsr control, 256 x87 control word)", en, (unsigned long long) status); mh_close (&mc); goto out; }
    mh_close (&mc);
  }
out:
  vp_count ("evaluations", compared); if (compared) vp_nontrivial ();
  uint64_t h = vp_hash_bytes (3, exp_img, sizeof exp_img); vp_outcome (vp_hash_bytes (h, exp_res, sizeof exp_res));
  if (idx % 4999 == 0) { char dsc[400]; drv_describe (idx, dsc, sizeof dsc); vp_sample ("%s", dsc); }
}
