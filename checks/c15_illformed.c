/* C15 - ill-formed IR is rejected through the error callback, well-formed IR is accepted.
   Exhaustive: opcode x operand position x operand kind (full cross product over all positions), arity +-1,
   declaration errors, ret/call/prototype mismatches.  Oracle: a rule table transcribed from MIR.md by opcode
   class (independent of insn_descs[]).  DESIGN.md §3 C15. */
#include "vp.h"
#include "mirh.h"
#include <string.h>
#include <stdlib.h>

/* ---- rule table: name:signature; uppercase = output position; i int, f float, d double, l long double, b label, r register of any type ---- */
static const char *RULES[] = {
  "mov:Ii", "fmov:Ff", "dmov:Dd", "ldmov:Ll", "ext8:Ii", "ext16:Ii", "ext32:Ii", "uext8:Ii", "uext16:Ii", "uext32:Ii",
  "i2f:Fi", "i2d:Di", "i2ld:Li", "ui2f:Fi", "ui2d:Di", "ui2ld:Li", "f2i:If", "d2i:Id", "ld2i:Il", "f2d:Df", "f2ld:Lf", "d2f:Fd", "d2ld:Ld", "ld2f:Fl", "ld2d:Dl",
  "neg:Ii", "negs:Ii", "fneg:Ff", "dneg:Dd", "ldneg:Ll", "addr:Ir", "addr8:Ir", "addr16:Ir", "addr32:Ir",
  "add:Iii", "adds:Iii", "fadd:Fff", "dadd:Ddd", "ldadd:Lll", "sub:Iii", "subs:Iii", "fsub:Fff", "dsub:Ddd", "ldsub:Lll",
  "mul:Iii", "muls:Iii", "fmul:Fff", "dmul:Ddd", "ldmul:Lll", "div:Iii", "divs:Iii", "udiv:Iii", "udivs:Iii", "fdiv:Fff", "ddiv:Ddd", "lddiv:Lll",
  "mod:Iii", "mods:Iii", "umod:Iii", "umods:Iii", "and:Iii", "ands:Iii", "or:Iii", "ors:Iii", "xor:Iii", "xors:Iii",
  "lsh:Iii", "lshs:Iii", "rsh:Iii", "rshs:Iii", "ursh:Iii", "urshs:Iii",
  "eq:Iii", "eqs:Iii", "feq:Iff", "deq:Idd", "ldeq:Ill", "ne:Iii", "nes:Iii", "fne:Iff", "dne:Idd", "ldne:Ill",
  "lt:Iii", "lts:Iii", "ult:Iii", "ults:Iii", "flt:Iff", "dlt:Idd", "ldlt:Ill", "le:Iii", "les:Iii", "ule:Iii", "ules:Iii", "fle:Iff", "dle:Idd", "ldle:Ill",
  "gt:Iii", "gts:Iii", "ugt:Iii", "ugts:Iii", "fgt:Iff", "dgt:Idd", "ldgt:Ill", "ge:Iii", "ges:Iii", "uge:Iii", "uges:Iii", "fge:Iff", "dge:Idd", "ldge:Ill",
  "addo:Iii", "addos:Iii", "subo:Iii", "subos:Iii", "mulo:Iii", "mulos:Iii", "umulo:Iii", "umulos:Iii",
  "jmp:b", "bt:bi", "bts:bi", "bf:bi", "bfs:bi",
  "beq:bii", "beqs:bii", "fbeq:bff", "dbeq:bdd", "ldbeq:bll", "bne:bii", "bnes:bii", "fbne:bff", "dbne:bdd", "ldbne:bll",
  "blt:bii", "blts:bii", "ublt:bii", "ublts:bii", "fblt:bff", "dblt:bdd", "ldblt:bll", "ble:bii", "bles:bii", "uble:bii", "ubles:bii", "fble:bff", "dble:bdd", "ldble:bll",
  "bgt:bii", "bgts:bii", "ubgt:bii", "ubgts:bii", "fbgt:bff", "dbgt:bdd", "ldbgt:bll", "bge:bii", "bges:bii", "ubge:bii", "ubges:bii", "fbge:bff", "dbge:bdd", "ldbge:bll",
  "laddr:Ib", "jmpi:i", "alloca:Ii", "bstart:I", "bend:i",
};
#define NRULES ((int) (sizeof (RULES) / sizeof (RULES[0])))
static MIR_insn_code_t rule_code[NRULES]; static char rule_sig[NRULES][8]; static char rule_name[NRULES][16];

/* ---- operand kinds ---- */
typedef enum { K_IREG, K_FREG, K_DREG, K_LREG, K_INT, K_UINT, K_FIMM, K_DIMM, K_LIMM,
  K_MI8, K_MU8, K_MI16, K_MU16, K_MI32, K_MU32, K_MI64, K_MU64, K_MP, K_MF, K_MD, K_MLD, K_MBLK, K_MRBLK, K_MUNDEF,
  K_LABEL, K_RFUNC, K_RPROTO, K_RIMPORT, K_RDATA, K_STR, K_N } okind;
static const char *KNAME[] = {"int-reg", "float-reg", "double-reg", "ldouble-reg", "int-imm", "uint-imm", "float-imm", "double-imm", "ldouble-imm",
  "mem-i8", "mem-u8", "mem-i16", "mem-u16", "mem-i32", "mem-u32", "mem-i64", "mem-u64", "mem-p", "mem-f", "mem-d", "mem-ld", "mem-blk", "mem-rblk", "mem-undef",
  "label", "ref-func", "ref-proto", "ref-import", "ref-data", "string"};
/* value class of a kind: i f d l b ; 'x' = never valid outside calls ; '?' = MIR.md does not say (address-valued) */
static char kclass (okind k) {
  switch (k) {
  case K_IREG: case K_INT: case K_UINT: case K_MI8: case K_MU8: case K_MI16: case K_MU16: case K_MI32: case K_MU32: case K_MI64: case K_MU64: case K_MP: return 'i';
  case K_FREG: case K_FIMM: case K_MF: return 'f'; case K_DREG: case K_DIMM: case K_MD: return 'd'; case K_LREG: case K_LIMM: case K_MLD: return 'l';
  case K_LABEL: return 'b'; case K_MBLK: case K_MRBLK: case K_MUNDEF: return 'x';
  default: return '?'; /* references and strings: addresses */
  }
}
static int kout_ok (okind k) { return k <= K_LREG || (k >= K_MI8 && k <= K_MLD); }
static int kreg (okind k) { return k <= K_LREG; }
/* verdict of the rule table for one position: 1 accept, 0 reject, -1 unconstrained */
static int rule_pos (char want, okind k) {
  char c = kclass (k); int out = want >= 'A' && want <= 'Z'; char w = out ? want + 32 : want;
  if (c == 'x') return 0;
  if (w == 'r') return kreg (k) ? 1 : 0;
  if (out && !kout_ok (k)) return 0;          /* only a register or memory can be a result */
  if (c == '?') return w == 'i' ? -1 : 0;     /* an address used as an integer value: MIR.md is silent; as anything else: wrong */
  return c == w;
}

/* ---- case space ---- */
/* section 0: cross product per rule; section 1: arity; section 2: scripted declaration / ret / call faults */
static uint64_t first[NRULES + 1], n_cross, n_arity, n_script, n_memreg;
#define NMEMREG (5 * 5 * 3) /* base kind x index kind x position of the memory operand */
static int nops_of (int r) { return (int) strlen (rule_sig[r]); }
#define NSCRIPT 40
void drv_init (int thorough) {
  mh_ctx mc; mh_open (&mc);
  for (int r = 0; r < NRULES; r++) {
    const char *c = strchr (RULES[r], ':'); size_t nl = c - RULES[r]; memcpy (rule_name[r], RULES[r], nl); rule_name[r][nl] = 0; snprintf (rule_sig[r], sizeof rule_sig[r], "%s", c + 1);
    rule_code[r] = MIR_INSN_BOUND;
    for (int code = 0; code < MIR_INSN_BOUND; code++) if (!strcmp (MIR_insn_name (mc.ctx, code), rule_name[r])) rule_code[r] = code;
    if (rule_code[r] == MIR_INSN_BOUND) { fprintf (stderr, "unknown opcode %s\n", rule_name[r]); exit (3); }
    uint64_t n = 1; for (int p = 0; p < nops_of (r); p++) n *= K_N;
    first[r + 1] = first[r] + n;
  }
  mh_close (&mc);
  n_cross = first[NRULES]; n_arity = NRULES * 2; n_script = NSCRIPT; n_memreg = NMEMREG;
}
uint64_t drv_ncases (void) { return n_cross + n_arity + n_script + n_memreg; }

static int locate (uint64_t idx, int *rule, okind *k) {
  for (int r = 0; r < NRULES; r++) if (idx < first[r + 1]) { uint64_t l = idx - first[r]; *rule = r; for (int p = 0; p < nops_of (r); p++) { k[p] = l % K_N; l /= K_N; } return 1; }
  return 0;
}
static const char *SCRIPT_NAME[NSCRIPT] = {
  "undeclared register name", "register declared twice", "reserved register name hr5", "local register of type i8", "local register of type blk",
  "ret with too few operands", "ret with too many operands", "ret int for double result", "ret double for int result", "ret label operand",
  "call with too few arguments", "call with too many arguments (non-variadic)", "call passes register where block expected", "call passes block where integer expected",
  "call block of wrong type (blk1 for blk)", "call rblk in variadic tail", "call result count mismatch", "call float immediate as variadic argument", "call with non-proto first operand", "call result is an immediate",
  "bo without previous overflow insn", "ubo after mulo (signed)", "bo after umulo (unsigned)", "bo separated by a non-move insn", "va_start in non-variadic function",
  "mix of ret and jret", "jret in function with results", "switch with non-label target", "switch without labels", "label operand in func of other use (mov r,label)",
  "well-formed: bo after addo with reg move between", "well-formed: call matching prototype with block and rblk", "well-formed: variadic call with extra int and double", "well-formed: multiple results ret", "well-formed: switch with 3 labels",
  "insn appended to no function", "finish_func without function", "new func inside a func", "import name equal to func name then both used", "duplicate proto name"};
void drv_describe (uint64_t idx, char *buf, size_t n) {
  int r; okind k[4];
  if (idx < n_cross) { locate (idx, &r, k); size_t l = snprintf (buf, n, "C15 cross op=%s sig=%s kinds=", rule_name[r], rule_sig[r]); for (int p = 0; p < nops_of (r) && l < n; p++) l += snprintf (buf + l, n - l, "%s%s", p ? "," : "", KNAME[k[p]]); }
  else if (idx < n_cross + n_arity) { uint64_t l = idx - n_cross; snprintf (buf, n, "C15 arity op=%s nops%s1", rule_name[l / 2], l % 2 ? "+" : "-"); }
  else if (idx < n_cross + n_arity + n_script) snprintf (buf, n, "C15 script: %s", SCRIPT_NAME[idx - n_cross - n_arity]);
  else { static const char *RK[] = {"none", "int-reg", "float-reg", "double-reg", "undeclared-reg"}, *PS[] = {"mov source", "mov destination", "second source of add"}; uint64_t l = idx - n_cross - n_arity - n_script;
    snprintf (buf, n, "C15 memory operand registers: base=%s index=%s position=%s", RK[l % 5], RK[l / 5 % 5], PS[l / 25]); }
}

/* ---- building ---- */
typedef struct { MIR_context_t ctx; MIR_item_t f, g, proto, import, data, pblk, pv0, pv1, p2; MIR_reg_t ri, rf, rd, rl, ri2; MIR_label_t lab; } env;
static void setup (env *e, mh_ctx *mc, int vararg, int nres_d) {
  MIR_context_t ctx = e->ctx = mc->ctx; MIR_type_t ri = MIR_T_I64, rd = MIR_T_D;
  MIR_new_module (ctx, "m");
  e->import = MIR_new_import (ctx, "ext");
  e->proto = MIR_new_proto (ctx, "pr", 1, &ri, 1, MIR_T_I64, "x");
  int64_t dv = 5; e->data = MIR_new_data (ctx, "dat", MIR_T_I64, 1, &dv);
  { MIR_var_t av[3] = {{MIR_T_BLK, "b", 24}, {MIR_T_RBLK, "r", 40}, {MIR_T_I64, "n", 0}}, v1[1] = {{MIR_T_I64, "n", 0}}; MIR_type_t two[2] = {MIR_T_I64, MIR_T_D};
    e->pblk = MIR_new_proto_arr (ctx, "pblk", 0, NULL, 3, av); e->pv0 = MIR_new_vararg_proto_arr (ctx, "pv0", 0, NULL, 1, v1); e->pv1 = MIR_new_vararg_proto_arr (ctx, "pv1", 1, &ri, 1, v1); e->p2 = MIR_new_proto_arr (ctx, "p2", 2, two, 0, NULL); }
  e->g = MIR_new_func (ctx, "g", 1, &ri, 1, MIR_T_I64, "x"); MIR_append_insn (ctx, e->g, MIR_new_ret_insn (ctx, 1, MIR_new_int_op (ctx, 1))); MIR_finish_func (ctx);
  e->f = vararg ? MIR_new_vararg_func (ctx, "t", 1, nres_d ? &rd : &ri, 1, MIR_T_I64, "a") : MIR_new_func (ctx, "t", 1, nres_d ? &rd : &ri, 1, MIR_T_I64, "a");
  e->ri = MIR_new_func_reg (ctx, e->f->u.func, MIR_T_I64, "ri"); e->ri2 = MIR_new_func_reg (ctx, e->f->u.func, MIR_T_I64, "ri2");
  e->rf = MIR_new_func_reg (ctx, e->f->u.func, MIR_T_F, "rf"); e->rd = MIR_new_func_reg (ctx, e->f->u.func, MIR_T_D, "rd"); e->rl = MIR_new_func_reg (ctx, e->f->u.func, MIR_T_LD, "rl");
  e->lab = MIR_new_label (ctx);
}
static MIR_op_t make_op (env *e, okind k) {
  MIR_context_t ctx = e->ctx; static const MIR_type_t MT[] = {MIR_T_I8, MIR_T_U8, MIR_T_I16, MIR_T_U16, MIR_T_I32, MIR_T_U32, MIR_T_I64, MIR_T_U64, MIR_T_P, MIR_T_F, MIR_T_D, MIR_T_LD, MIR_T_BLK, MIR_T_RBLK, MIR_T_UNDEF};
  switch (k) {
  case K_IREG: return MIR_new_reg_op (ctx, e->ri); case K_FREG: return MIR_new_reg_op (ctx, e->rf); case K_DREG: return MIR_new_reg_op (ctx, e->rd); case K_LREG: return MIR_new_reg_op (ctx, e->rl);
  case K_INT: return MIR_new_int_op (ctx, -3); case K_UINT: return MIR_new_uint_op (ctx, 7); case K_FIMM: return MIR_new_float_op (ctx, 1.5f); case K_DIMM: return MIR_new_double_op (ctx, 2.5); case K_LIMM: return MIR_new_ldouble_op (ctx, 3.5L);
  case K_LABEL: return MIR_new_label_op (ctx, e->lab);
  case K_RFUNC: return MIR_new_ref_op (ctx, e->g); case K_RPROTO: return MIR_new_ref_op (ctx, e->proto); case K_RIMPORT: return MIR_new_ref_op (ctx, e->import); case K_RDATA: return MIR_new_ref_op (ctx, e->data);
  case K_STR: return MIR_new_str_op (ctx, (MIR_str_t){3, "ab"});
  default: return MIR_new_mem_op (ctx, MT[k - K_MI8], 16, e->ri2, 0, 1);
  }
}
static MIR_op_t good_op (env *e, char want) { char w = want >= 'A' && want <= 'Z' ? want + 32 : want; return make_op (e, w == 'i' || w == 'r' ? K_IREG : w == 'f' ? K_FREG : w == 'd' ? K_DREG : w == 'l' ? K_LREG : K_LABEL); }
static void finish (env *e) { MIR_append_insn (e->ctx, e->f, e->lab); MIR_append_insn (e->ctx, e->f, MIR_new_ret_insn (e->ctx, 1, MIR_new_int_op (e->ctx, 0))); MIR_finish_func (e->ctx); MIR_finish_module (e->ctx); }

static int errored; static MIR_error_type_t ecode;
#define GUARD(mc, ...) do { mh_cur = (mc); mh_arm (1); if (setjmp (mh_err_jb) == 0) { __VA_ARGS__; errored = 0; } else { errored = 1; ecode = (mc)->err_type; } mh_arm (0); } while (0)

static void script (env *e, mh_ctx *mc, int s, int *expect_err) {
  MIR_context_t ctx = e->ctx; MIR_type_t ti = MIR_T_I64, td = MIR_T_D; MIR_type_t two[2] = {MIR_T_I64, MIR_T_D}; MIR_item_t f = e->f; MIR_op_t R = MIR_new_reg_op (ctx, e->ri), L = MIR_new_label_op (ctx, e->lab);
  MIR_item_t pblk = NULL; *expect_err = 1;
#define APP(i) MIR_append_insn (ctx, f, i)
  switch (s) {
  case 0: MIR_reg (ctx, "nope", f->u.func); break;
  case 1: MIR_new_func_reg (ctx, f->u.func, MIR_T_I64, "ri"); break;
  case 2: MIR_new_func_reg (ctx, f->u.func, MIR_T_I64, "hr5"); break;
  case 3: MIR_new_func_reg (ctx, f->u.func, MIR_T_I8, "small"); break;
  case 4: MIR_new_func_reg (ctx, f->u.func, MIR_T_BLK, "blkreg"); break;
  case 5: APP (MIR_new_ret_insn (ctx, 0)); finish (e); break;
  case 6: APP (MIR_new_ret_insn (ctx, 2, R, R)); finish (e); break;
  case 7: /* f returns d in this script */ APP (MIR_new_ret_insn (ctx, 1, R)); MIR_append_insn (ctx, f, e->lab); MIR_finish_func (ctx); break;
  case 8: APP (MIR_new_ret_insn (ctx, 1, MIR_new_reg_op (ctx, e->rd))); finish (e); break;
  case 9: APP (MIR_new_ret_insn (ctx, 1, L)); finish (e); break;
  case 10: APP (MIR_new_call_insn (ctx, 3, MIR_new_ref_op (ctx, e->proto), MIR_new_ref_op (ctx, e->g), R)); finish (e); break;
  case 11: APP (MIR_new_call_insn (ctx, 5, MIR_new_ref_op (ctx, e->proto), MIR_new_ref_op (ctx, e->g), R, R, R)); finish (e); break;
  case 12: case 13: case 14: case 15: case 31: {
    pblk = e->pblk;
    MIR_op_t B = MIR_new_mem_op (ctx, MIR_T_BLK, 24, e->ri, 0, 1), RB = MIR_new_mem_op (ctx, MIR_T_RBLK, 40, e->ri, 0, 1), B1 = MIR_new_mem_op (ctx, MIR_T_BLK + 1, 24, e->ri, 0, 1);
    if (s == 12) APP (MIR_new_call_insn (ctx, 5, MIR_new_ref_op (ctx, pblk), MIR_new_ref_op (ctx, e->import), R, RB, R));
    else if (s == 13) APP (MIR_new_call_insn (ctx, 5, MIR_new_ref_op (ctx, pblk), MIR_new_ref_op (ctx, e->import), B, RB, B));
    else if (s == 14) APP (MIR_new_call_insn (ctx, 5, MIR_new_ref_op (ctx, pblk), MIR_new_ref_op (ctx, e->import), B1, RB, R));
    else if (s == 15) { MIR_item_t pv = e->pv0; APP (MIR_new_call_insn (ctx, 4, MIR_new_ref_op (ctx, pv), MIR_new_ref_op (ctx, e->import), R, RB)); }
    else { APP (MIR_new_call_insn (ctx, 5, MIR_new_ref_op (ctx, pblk), MIR_new_ref_op (ctx, e->import), B, RB, R)); *expect_err = 0; }
    finish (e); break; }
  case 16: { MIR_item_t p2 = e->p2; (void) two; APP (MIR_new_call_insn (ctx, 3, MIR_new_ref_op (ctx, p2), MIR_new_ref_op (ctx, e->import), R)); finish (e); *expect_err = -1; /* operand count alone cannot tell results from arguments */ break; }
  case 17: case 32: { MIR_item_t pv = e->pv1;
    if (s == 17) { APP (MIR_new_call_insn (ctx, 5, MIR_new_ref_op (ctx, pv), MIR_new_ref_op (ctx, e->import), R, R, MIR_new_float_op (ctx, 1.5f))); *expect_err = -1; /* reported by the engines, not at creation */ }
    else { APP (MIR_new_call_insn (ctx, 6, MIR_new_ref_op (ctx, pv), MIR_new_ref_op (ctx, e->import), R, R, MIR_new_int_op (ctx, 4), MIR_new_double_op (ctx, 2.5))); *expect_err = 0; }
    finish (e); break; }
  case 18: APP (MIR_new_call_insn (ctx, 4, MIR_new_ref_op (ctx, e->g), MIR_new_ref_op (ctx, e->g), R, R)); finish (e); break;
  case 19: APP (MIR_new_call_insn (ctx, 4, MIR_new_ref_op (ctx, e->proto), MIR_new_ref_op (ctx, e->g), MIR_new_int_op (ctx, 1), R)); finish (e); break;
  case 20: APP (MIR_new_insn (ctx, MIR_BO, L)); finish (e); break;
  case 21: APP (MIR_new_insn (ctx, MIR_MULO, R, R, R)); APP (MIR_new_insn (ctx, MIR_UBO, L)); finish (e); break;
  case 22: APP (MIR_new_insn (ctx, MIR_UMULO, R, R, R)); APP (MIR_new_insn (ctx, MIR_BO, L)); finish (e); break;
  case 23: APP (MIR_new_insn (ctx, MIR_ADDO, R, R, R)); APP (MIR_new_insn (ctx, MIR_ADD, R, R, R)); APP (MIR_new_insn (ctx, MIR_BO, L)); finish (e); break;
  case 24: APP (MIR_new_insn (ctx, MIR_VA_START, R)); finish (e); break;
  case 25: APP (MIR_new_insn (ctx, MIR_JRET, R)); finish (e); break;
  case 26: APP (MIR_new_insn (ctx, MIR_JRET, R)); MIR_append_insn (ctx, f, e->lab); MIR_finish_func (ctx); break;
  case 27: { MIR_op_t o[3] = {R, L, R}; APP (MIR_new_insn_arr (ctx, MIR_SWITCH, 3, o)); finish (e); break; }
  case 28: { MIR_op_t o[1] = {R}; APP (MIR_new_insn_arr (ctx, MIR_SWITCH, 1, o)); finish (e); break; }
  case 29: APP (MIR_new_insn (ctx, MIR_MOV, R, L)); finish (e); break;
  case 30: APP (MIR_new_insn (ctx, MIR_ADDO, R, R, R)); APP (MIR_new_insn (ctx, MIR_MOV, MIR_new_reg_op (ctx, e->ri2), R)); APP (MIR_new_insn (ctx, MIR_BO, L)); finish (e); *expect_err = 0; break;
  case 33: { /* handled by caller: function with two results */ *expect_err = 0; finish (e); break; }
  case 34: { MIR_op_t o[4] = {R, L, L, L}; APP (MIR_new_insn_arr (ctx, MIR_SWITCH, 4, o)); finish (e); *expect_err = 0; break; }
  case 35: finish (e); MIR_append_insn (ctx, f, MIR_new_insn (ctx, MIR_MOV, R, R)); *expect_err = -1; break;
  case 36: finish (e); MIR_finish_func (ctx); break;
  case 37: MIR_new_func (ctx, "inner", 1, &ti, 0); break;
  case 38: finish (e); *expect_err = -1; break;
  case 39: finish (e); MIR_new_module (ctx, "m2"); MIR_new_proto (ctx, "q", 1, &ti, 0); MIR_new_proto (ctx, "q", 1, &td, 0); break;
  default: finish (e); *expect_err = 0;
  }
}

void drv_case (uint64_t idx) {
  mh_ctx mc; env e; int r = 0; okind k[4]; mh_open (&mc);
  if (idx < n_cross) {
    locate (idx, &r, k); int n = nops_of (r), verdict = 1, unconstrained = 0;
    for (int p = 0; p < n; p++) { int v = rule_pos (rule_sig[r][p], k[p]); if (v == 0) verdict = 0; else if (v < 0) unconstrained = 1; }
    GUARD (&mc, { setup (&e, &mc, 0, 0); MIR_op_t ops[4]; for (int p = 0; p < n; p++) ops[p] = make_op (&e, k[p]);
      MIR_insn_code_t code = rule_code[r];
      if (code == MIR_BEND || code == MIR_JMPI) {} /* no special context needed */
      MIR_append_insn (e.ctx, e.f, MIR_new_insn_arr (e.ctx, code, n, ops)); finish (&e); });
    if (verdict == 0) { vp_count ("expected_rejections", 1); if (!errored) vp_fail ("accepted-ill-formed", "MIR.md rule table rejects this operand combination but no error was reported"); vp_nontrivial (); }
    else if (unconstrained) vp_count ("unconstrained", 1);
    else { vp_count ("expected_acceptances", 1); if (errored) vp_fail ("rejected-well-formed", "documented operand combination rejected with error code %d: %s", (int) ecode, mc.errmsg); vp_nontrivial (); }
    if (errored) { char key[40]; snprintf (key, sizeof key, "errcode:%d", (int) ecode); vp_count (key, 1); }
  } else if (idx < n_cross + n_arity) {
    uint64_t l = idx - n_cross; r = (int) (l / 2); int n = nops_of (r) + (l % 2 ? 1 : -1);
    GUARD (&mc, { setup (&e, &mc, 0, 0); MIR_op_t ops[6]; for (int p = 0; p < n; p++) ops[p] = good_op (&e, p < nops_of (r) ? rule_sig[r][p] : 'i');
      MIR_append_insn (e.ctx, e.f, MIR_new_insn_arr (e.ctx, rule_code[r], n, ops)); finish (&e); });
    if (!errored) vp_fail ("accepted-ill-formed", "insn created with %d operands instead of %d", n, nops_of (r));
    else if (ecode != MIR_ops_num_error) vp_count ("arity_other_code", 1);
    vp_nontrivial ();
  } else if (idx >= n_cross + n_arity + n_script) { /* registers inside a memory operand: each of base and index must be a declared integer register */
    uint64_t l = idx - n_cross - n_arity - n_script; int bk = l % 5, ik = l / 5 % 5, pos = (int) (l / 25), expect = !(bk <= 1 && ik <= 1);
    GUARD (&mc, { setup (&e, &mc, 0, 0); MIR_reg_t rk[5] = {0, e.ri, e.rf, e.rd, 999};
      MIR_op_t m = MIR_new_mem_op (e.ctx, MIR_T_I64, 8, rk[bk], rk[ik], 1), R = MIR_new_reg_op (e.ctx, e.ri2);
      MIR_append_insn (e.ctx, e.f, pos == 0 ? MIR_new_insn (e.ctx, MIR_MOV, R, m) : pos == 1 ? MIR_new_insn (e.ctx, MIR_MOV, m, R) : MIR_new_insn (e.ctx, MIR_ADD, R, R, m)); finish (&e); });
    if (expect && !errored) vp_fail ("accepted-ill-formed", "a memory operand with a non-integer or undeclared base/index register was accepted");
    else if (!expect && errored) vp_fail ("rejected-well-formed", "error code %d: %s", (int) ecode, mc.errmsg);
    vp_nontrivial ();
  } else {
    int s = (int) (idx - n_cross - n_arity), expect = 1;
    GUARD (&mc, { if (s == 33) { MIR_type_t two[2] = {MIR_T_I64, MIR_T_D}; MIR_context_t ctx = mc.ctx; MIR_new_module (ctx, "m"); MIR_item_t f2 = MIR_new_func (ctx, "t2", 2, two, 1, MIR_T_I64, "a");
                                  MIR_append_insn (ctx, f2, MIR_new_ret_insn (ctx, 2, MIR_new_int_op (ctx, 1), MIR_new_double_op (ctx, 2.0))); MIR_finish_func (ctx); MIR_finish_module (ctx); expect = 0; }
                  else { setup (&e, &mc, s == 24 ? 0 : 0, s == 7); script (&e, &mc, s, &expect); } });
    if (expect == 1 && !errored) vp_fail ("accepted-ill-formed", "no error reported");
    else if (expect == 0 && errored) vp_fail ("rejected-well-formed", "error code %d: %s", (int) ecode, mc.errmsg);
    else if (expect < 0) vp_count ("unconstrained", 1);
    vp_nontrivial ();
  }
  if (idx % 300007 == 0) { char d[300]; drv_describe (idx, d, sizeof d); vp_sample ("%s -> %s", d, errored ? "error reported" : "accepted"); }
  mh_close (&mc);
}
