"""C09 - c2mir's preprocessor expands macros and evaluates #if as a conforming C11 preprocessor does.
Exhaustive grammar enumeration, oracle = gcc -E -P (cases on which gcc -std=c11 -pedantic-errors diagnoses anything are
dropped: the quantifier is over well-formed input); outputs are compared as pp-token sequences."""
import itertools, os, re, subprocess, concurrent.futures as cf
from core import build, runner
from gen import ppeval

PUNCT = sorted(["...", "<<=", ">>=", "##", "->", "++", "--", "<<", ">>", "<=", ">=", "==", "!=", "&&", "||", "*=", "/=", "%=", "+=", "-=", "&=", "^=", "|=",
                "<:", ":>", "<%", "%>", "%:"], key=len, reverse=True)
TOK = re.compile(r"""\s+|[A-Za-z_]\w*|\.?\d(?:[eEpP][+-]|[\w.])*|"(?:\\.|[^"\\\n])*"|'(?:\\.|[^'\\\n])*'|""" + "|".join(re.escape(p) for p in PUNCT) + r"|.", re.S)


def tokens(text):
    return [t for t in TOK.findall(text) if not t.isspace()]


# ----------------------------------------------------------------------------------------------------- generators
ENVS = [("a1", "b1", "[x]"), ("A+1", "A", "x x"), ("B", "A", "F(x, A)"), ("F", "(1,2)", "#x"), ("G(B)", "G", "x(2)"), ("1 B", "A 2", "x ## x")]
RTOK = ["x", "y", "#x", "##", "A", "B", "F", "G", "(", ")", ",", "1", "+", "__VA_ARGS__", "#y", "x##y"]
INVOC_FIXED = ["F(1,2)", "F(a,b)", "F(A,B)", "F(,)", "F((1,2),3)", "F(F(1,2),G(3))", "F(G(a),A)", "F( x , y )", "F(B,)", "F(1,2)(3,4)", "F (1,2)", "F", "F(A B,a+b)", "G(F(1,2))"]
INVOC_VAR = ["F(1,2)", "F(1,2,3)", "F(1)", "F(,2,3)", "F(A,B,G(1))", "F((a,b),c,d)", "F(1,)", "F"]
BODY_FIXED = ["x y", "x##y", "#x #y", "x + y", "y x", "(x)(y)", "x ## 1", "1 ## y", "#x x", "x #y y", "F(y,x)", "G(x) y", "A x B y", "x ## y ## x", "x,y", "(x", "x)", "", "x", "G", "G x", "x ## A", "A ## y",
              "#x ## #y", "x##+", "+##y", "x y x y"]


def case_text(defs, use):
    """one case = definitions, one use line, undefs; returns list of lines (no marker)"""
    lines = ["#define %s" % d for d in defs] + [use]
    names = []
    for d in defs:
        n = re.match(r"[A-Za-z_]\w*", d).group(0)
        if n not in names:
            names.append(n)
    return lines + ["#undef %s" % n for n in names]


def gen_macro_cases(thorough):
    out = []
    maxlen = 4 if thorough else 3
    envs = ENVS if thorough else ENVS[:4]
    for n in range(0, maxlen + 1):
        for body in itertools.product(RTOK[:14] if n >= 3 else RTOK, repeat=n):
            b = " ".join(body)
            if "## ##" in b:
                continue  # two adjacent paste operators: the first pastes with the second '##' (not a valid token, undefined); gcc silently treats them as one
            if ", ## __VA_ARGS__" in b:
                continue  # ',' pasted with the first variable argument is not a valid token (undefined in C11); gcc accepts it silently as its comma-elision extension
            var = "__VA_ARGS__" in body
            head = "F(x,...)" if var else "F(x,y)"
            invs = INVOC_VAR if var else INVOC_FIXED
            if n == 4:
                invs = invs[:4]
            for ei, (a, bb, g) in enumerate(envs if n <= 2 else envs[:2] if n == 3 else envs[:1]):
                for inv in invs:
                    out.append(("macro body=[%s] env=%d use=%s" % (b, ei, inv), case_text(["A %s" % a, "B %s" % bb, "G(x) %s" % g, "%s %s" % (head, b)], inv)))
    # invocation texts: every parenthesis-balanced token string
    itok = ["F", "G", "A", "(", ")", ",", "1", "a"]
    maxi = 6 if thorough else 5
    for n in range(1, maxi + 1):
        for inv in itertools.product(itok, repeat=n):
            d = 0; ok = True
            for t in inv:
                d += (t == "(") - (t == ")")
                if d < 0: ok = False; break
            if not ok or d != 0: continue
            use = " ".join(inv)
            bodies = BODY_FIXED if n <= 4 else BODY_FIXED[:8]
            for bi, body in enumerate(bodies):
                for ei, (a, bb, g) in enumerate(ENVS[:3] if n <= 4 else ENVS[:1]):
                    out.append(("invocation use=[%s] body=[%s] env=%d" % (use, body, ei), case_text(["A %s" % a, "B %s" % bb, "G(x) %s" % g, "F(x,y) %s" % body], use)))
    # object-like / rescanning specials
    specials = [(["f(x) x f", "g f"], "f(1)(2)(3) g(4)"), (["AA BB", "BB AA", "CC(x) x AA"], "AA BB CC(BB) CC(CC(AA))"), (["obj (1)", "fl(x) [x]"], "fl obj fl obj"), (["LP (", "RP )", "id(x) x"], "id LP 1 RP id(LP) id(RP)"),
                (["cat(a,b) a ## b", "xcat(a,b) cat(a,b)", "ab 7", "a1 8"], "cat(a,b) xcat(a,1) cat(cat(a,b),c) cat(,) cat(1,) cat(,2) cat(+,+) cat(-,>) cat(<,<=)"),
                (["str(x) #x", "xstr(x) str(x)", "v 42"], "str(v) xstr(v) str( a  \"b\\n\"  'c' ) str(\"\\\\\") str(\t tab\t) str() xstr(str(v))"),
                (["e(...) __VA_ARGS__", "c(...) #__VA_ARGS__", "n(a,...) a __VA_ARGS__ a"], "e() e(1) e(1,2) c() c( 1 , 2 ) c(\"x\",'y') n(1,2,3) n(,)"),
                (["t(x,y) x ## y ## x"], "t(a,b) t(1,2) t(,) t(a,)")]
    for defs, use in specials:
        out.append(("special %s" % use, case_text(defs, use)))
    # chains of object-like macros whose replacement ends (or starts) with the name of a function-like macro that takes its arguments from the text behind the chain
    for depth in range(1, 6):
        for shape in ("%s", "+ %s", "%s +", "(%s)", "%s %s"):
            defs = ["g(x) [x]", "m1 " + (shape % (("g",) * shape.count("%s")))] + ["m%d %s" % (k, shape % (("m%d" % (k - 1),) * shape.count("%s"))) for k in range(2, depth + 1)]
            top = "m%d" % depth
            for use in ("%s(3)", "%s (4) %s(5)", "%s", "%s(%s(6))", "(%s)(7)", "%s()", "g(%s)(8)", "%s(1)(2)"):
                out.append(("chain depth=%d shape=[%s] use=%s" % (depth, shape, use), case_text(defs, use % ((top,) * use.count("%s")))))
    return out


LEAVES = ["0", "1", "-1", "9223372036854775807", "(-9223372036854775807-1)", "0u", "18446744073709551615u", "'a'", "UNDEFINED_ID", "defined(DEF1)", "defined UNDEF2", "DEF1", "2", "63", "0x80000000", "'\\377'"]
BINOPS = ["*", "/", "%", "+", "-", "<<", ">>", "<", ">", "<=", ">=", "==", "!=", "&", "^", "|", "&&", "||"]
UNOPS = ["-", "~", "!", "+"]


def if_case(expr):
    return ["#define DEF1 3", "#if " + expr, "T", "#else", "E", "#endif", "#undef DEF1"]


def gen_if_cases(thorough):
    out = []
    L = LEAVES if thorough else LEAVES[:12]
    d1 = list(L)
    d2 = ["%s %s" % (u, a) for u in UNOPS for a in L] + ["%s %s %s" % (a, o, b) for o in BINOPS for a in L for b in L] + ["%s ? %s : %s" % (a, b, c) for a in L[:8] for b in L[:8] for c in L[:8]]
    def add(desc, e):
        if not ppeval.undefined_p(e):  # undefined behaviour in intmax_t arithmetic (overflow, bad shift, division): not a well-formed input
            out.append((desc, if_case(e)))
    for e in d1 + d2:
        add("if " + e, e)
    # depth 3: (depth-2 expression) op leaf and leaf op (depth-2 expression), over a reduced set
    inner = ["%s %s %s" % (a, o, b) for o in (BINOPS if thorough else ["+", "-", "<", "==", "&&", ">>", "*"]) for a in L[:7] for b in L[:7]] + ["%s ? %s : %s" % (a, b, c) for a in L[:4] for b in L[:7] for c in L[:7]]
    for o in (BINOPS if thorough else ["+", "<", ">", "==", "||", "<<", "/"]):
        for x in inner:
            for l in L[:7]:
                add("if (%s) %s %s" % (x, o, l), "(%s) %s %s" % (x, o, l))
                if thorough:
                    add("if %s %s (%s)" % (l, o, x), "%s %s (%s)" % (l, o, x))
    # conditional nests
    conds = ["0", "1", "defined(DEF1)", "!defined(DEF1)", "DEF1 > 2"]
    for a, b, c in itertools.product(conds, repeat=3):
        out.append(("nest %s|%s|%s" % (a, b, c), ["#define DEF1 3", "#if %s" % a, "A1", "#if %s" % b, "B1", "#elif %s" % c, "B2", "#else", "B3", "#endif", "A2", "#elif %s" % b, "C1", "#ifdef DEF1", "D1", "#else", "D2", "#endif", "#else", "C2",
                                                     "#ifndef DEF1", "D3", "#endif", "#endif", "#undef DEF1"]))
    return out


# ----------------------------------------------------------------------------------------------------- running
def write_cases(path, cases, start):
    """write cases[start:] with their global markers; returns line -> case index map"""
    line_case = {}
    with open(path, "w") as f:
        ln = 1
        for ci in range(start, len(cases)):
            f.write("vpcase_%d\n" % ci); line_case[ln] = ci; ln += 1
            for l in cases[ci][1]:
                f.write(l + "\n"); line_case[ln] = ci; ln += 1
        f.write("vpcase_end\n")
    return line_case


def split(text, is_c2m):
    if is_c2m:
        m = re.search(r"^vpcase_\d+", text, re.M)
        text = "\n".join(l for l in text[m.start():].split("\n") if not l.startswith("#")) if m else ""
    toks = tokens(text); res = {}; cur = None
    for t in toks:
        m = re.fullmatch(r"vpcase_(\d+|end)", t)
        if m:
            cur = None if m.group(1) == "end" else int(m.group(1)); res.setdefault(cur, [])
        elif cur is not None:
            res[cur].append(t)
    return res


def run_batch(args):
    bi, cases, wd, c2m = args
    path = os.path.join(wd, "b%d.c" % bi)
    line_case = write_cases(path, cases, 0)
    g = subprocess.run(["gcc", "-E", "-P", "-std=c11", "-pedantic", "-Wall", "-Wextra", "-x", "c", path], capture_output=True, text=True, errors="replace")
    gbad = set()
    for m in re.finditer(r"^[^:\n]+:(\d+):\d+: (?:error|warning|fatal error)", g.stderr, re.M):
        gbad.add(line_case.get(int(m.group(1)), -1))
    gs = split(g.stdout, False)
    # c2m: run; if it dies or hangs, the last marker it printed names the case it died in; continue behind that case
    cs = {}; cbad = {}; died = {}
    start = 0
    while start < len(cases):
        lc = write_cases(path, cases, start)
        try:
            c = subprocess.run(["stdbuf", "-o0", c2m, "-E", path], capture_output=True, text=True, errors="replace", timeout=60)  # unbuffered: the last marker printed is the case c2m died in
            rc, out, err = c.returncode, c.stdout, c.stderr
        except subprocess.TimeoutExpired as ex:
            rc = -14; out = ex.stdout.decode(errors="replace") if isinstance(ex.stdout, bytes) else (ex.stdout or ""); err = ""
        part = split(out, True)
        for m in re.finditer(r"^[^:\n]+:(\d+):\d+: (.*)$", err, re.M):
            cbad.setdefault(lc.get(int(m.group(1)), -1), m.group(2))
        if rc >= 0:
            cs.update({k: v for k, v in part.items() if k is not None}); break
        last = max([k for k in part if k is not None], default=start)
        cs.update({k: v for k, v in part.items() if k is not None and k < last})
        died[last] = rc
        start = last + 1
    fails = []; compared = 0; dropped = 0; glued = 0
    for ci, (desc, lines) in enumerate(cases):
        if ci in gbad or ci not in gs:
            dropped += 1; continue
        compared += 1
        if ci in died:
            fails.append((desc, "c2m-hang" if died[ci] == -14 else "c2m-crash", ("c2m -E did not finish within 30 s in this case" if died[ci] == -14 else "c2m -E died with signal %d while processing this case" % -died[ci]), lines)); continue
        if gs[ci] != cs.get(ci) and "".join(gs[ci]) == "".join(cs.get(ci) or []) and len(cs.get(ci) or []) < len(gs[ci]):
            glued += 1; continue  # same characters, c2m -E merely printed two tokens without a separating blank: a property of the -E printer, not of the token sequence
        if gs[ci] != cs.get(ci):
            kind = "c2m-rejects-wellformed" if ci in cbad and not cs.get(ci) else "token-sequence-differs"
            fails.append((desc, kind, "gcc: %s | c2m: %s%s" % (" ".join(gs[ci])[:160], " ".join(cs.get(ci) or ["<nothing>"])[:160], (" | c2m says: " + cbad[ci]) if ci in cbad else ""), lines))
    os.remove(path)
    return compared, dropped, fails, glued


def run(tier):
    rep = runner.Report("C09", tier, "exploration")
    thorough = tier == "thorough"
    c2m = build.c2m("prod")
    wd = runner.workdir("C09")
    cases = gen_macro_cases(thorough) + gen_if_cases(thorough)
    B = 1500
    batches = [(i // B, cases[i:i + B], wd, c2m) for i in range(0, len(cases), B)]
    compared = dropped = glued = 0
    with cf.ThreadPoolExecutor(max_workers=runner.NCPU) as ex:
        for comp, drop, fails, gl in ex.map(run_batch, batches):
            compared += comp; dropped += drop; glued += gl
            for desc, kind, msg, lines in fails:
                rep.add_fail("C09 " + desc, kind, msg, dict(source="\n".join(lines)))
    rep.coverage = dict(evaluations=len(cases), distinct_nontrivial=compared,
                        rule="cases = every replacement list of <=3 (thorough 4) tokens over {x,y,#x,#y,##,x##y,A,B,F,G,(,),',',1,+,__VA_ARGS__} for F in 4-6 macro environments (self reference, mutual recursion, function-like name without call, paste) x fixed invocations; "
                             "every parenthesis-balanced invocation of <=5 (6) tokens over {F,G,A,(,),',',1,a} x 27 fixed bodies; every #if expression of depth <=2 plus reduced depth 3 over all preprocessor operators and boundary leaves; conditional nests; "
                             "non-trivial = case accepted without any diagnostic by gcc -std=c11 -pedantic (compared as pp-token sequence with c2m -E)",
                        dropped_because_gcc_diagnoses=dropped, not_judged_c2m_E_prints_tokens_without_blank=glued, samples=[c[0] for c in cases[::max(1, len(cases) // 6)]][:6], exhaustive=True)
    rep.assumptions = ["gcc -E is the reference preprocessor; whitespace and line structure are not compared", "#include, #pragma, _Pragma and predefined macros are outside the grammar"]
    return rep.finish()
