"""C02 - every instruction computes its documented result (opcode x shape x value grid x engine vs refinterp)."""
from core import build, runner

SRCS = ["checks/c02_insn_sem.c", "core/vp.c", "core/mirh.c", "core/refinterp.c"]

def run(tier):
    rep = runner.Report("C02", tier, "exploration")
    exe = build.link_driver("c02", "prod", SRCS, tus=("mir", "mir-gen"))
    res = runner.run_driver(exe, tier, "C02", case_timeout=120, deadline=3000 if tier == "thorough" else 900)
    rep.add_driver_result(res)
    st = res["stats"]
    rep.coverage = dict(
        evaluations=st.get("evaluations", 0), distinct_nontrivial=res["nontrivial"],
        rule="case = (opcode, operand placement reg/imm/mem, addressing form, memory type, dst/src aliasing, constant-fold form, immediate values); "
             "every case is run over the whole value grid on interp and gen -O0..-O3 and compared with refinterp executing the un-linked IR; "
             "evaluations = value tuples x engines; non-trivial = case with at least one compared (specified) tuple",
        cases=res["done"], total_cases=res["ncases"], compared=st.get("compared", 0), unspecified_skipped=st.get("unspecified_skipped", 0),
        inexpressible_cases=st.get("skipped_inexpressible", 0), samples=res["samples"], exhaustive=res["exhaustive"])
    rep.assumptions = ["refinterp (core/refinterp.c) is the transcription of MIR.md; behaviours MIR.md leaves open are skipped, not judged",
                       "NaN payload/sign of arithmetic and conversion results, bytes 10..15 of stored long doubles and the upper half of 32-bit results are not compared"]
    return rep.finish()
