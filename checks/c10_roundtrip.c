/* C10 (VP_MODE=text) / C11 (VP_MODE=binary): round trip of MIR modules through the textual / binary writers.
   Cases come from gen/mirvocab.py (file named by VP_CASES).  DESIGN.md §3 C10/C11. */
#define _GNU_SOURCE
#include "vp.h"
#include "mirh.h"
#include <stdlib.h>
#include <string.h>
#include <stdio.h>

typedef struct { char *desc, *text; int run, binary_only; char fbits[24], dbits[24], ldbits[24], ibits[24], api[16], alias[16], nonalias[16]; } rcase;
static rcase *CS; static size_t n_cs; static int binary_mode;

static void parse_kv (rcase *c, char *hdr) {
  char *p = strstr (hdr, " ## ");
  if (p) *p = 0;
  c->desc = strdup (hdr);
  while (p) {
    char *kv = p + 4; p = strstr (kv, " ## "); if (p) *p = 0;
    if (!strncmp (kv, "run=", 4)) c->run = atoi (kv + 4);
    else if (!strncmp (kv, "binary_only=", 12)) c->binary_only = atoi (kv + 12);
    else if (!strncmp (kv, "api=", 4)) snprintf (c->api, sizeof c->api, "%s", kv + 4);
    else if (!strncmp (kv, "alias=", 6)) snprintf (c->alias, sizeof c->alias, "%s", kv + 6);
    else if (!strncmp (kv, "nonalias=", 9)) snprintf (c->nonalias, sizeof c->nonalias, "%s", kv + 9);
    else if (!strncmp (kv, "ibits=", 6)) snprintf (c->ibits, sizeof c->ibits, "%s", kv + 6);
    else if (!strncmp (kv, "fbits=", 6)) snprintf (c->fbits, sizeof c->fbits, "%s", kv + 6);
    else if (!strncmp (kv, "dbits=", 6)) snprintf (c->dbits, sizeof c->dbits, "%s", kv + 6);
    else if (!strncmp (kv, "ldbits=", 7)) snprintf (c->ldbits, sizeof c->ldbits, "%s", kv + 7);
  }
}
void drv_init (int thorough) {
  const char *m = getenv ("VP_MODE"); binary_mode = m && !strcmp (m, "binary");
  const char *path = getenv ("VP_CASES"); FILE *f = path ? fopen (path, "rb") : NULL;
  if (!f) { fprintf (stderr, "cannot open cases file\n"); exit (3); }
  fseek (f, 0, SEEK_END); long n = ftell (f); fseek (f, 0, SEEK_SET); char *buf = malloc (n + 1); if (fread (buf, 1, n, f) != (size_t) n) exit (3); buf[n] = 0; fclose (f);
  size_t cap = 0; char *p = buf;
  while ((p = strstr (p, "=====CASE ")) != NULL) {
    char *eol = strchr (p, '\n'), *next = strstr (eol, "\n=====");
    if (n_cs == cap) { cap = cap ? cap * 2 : 1024; CS = realloc (CS, cap * sizeof (rcase)); }
    rcase *c = &CS[n_cs]; memset (c, 0, sizeof *c);
    *eol = 0; parse_kv (c, p + 10);
    if (next) *next = 0;
    c->text = eol + 1;
    if (!(c->binary_only && !binary_mode)) n_cs++;
    if (!next) break;
    p = next + 1;
  }
}
uint64_t drv_ncases (void) { return n_cs; }
void drv_describe (uint64_t idx, char *buf, size_t n) { snprintf (buf, n, "%s %s", binary_mode ? "C11" : "C10", CS[idx].desc); }

/* ---------------- helpers ---------------- */
static char *output_text (mh_ctx *mc, size_t *len) {
  char *buf = NULL; FILE *f = open_memstream (&buf, len);
  mh_cur = mc;
  MIR_output (mc->ctx, f); fclose (f); return buf;
}
static uint8_t *wbuf; static size_t wlen, wcap, rpos;
static int wr_byte (MIR_context_t ctx, uint8_t b) { if (wlen == wcap) { wcap = wcap ? wcap * 2 : 4096; wbuf = realloc (wbuf, wcap); } wbuf[wlen++] = b; return 1; }
static const uint8_t *rbuf; static size_t rlen;
static int rd_byte (MIR_context_t ctx) { return rpos < rlen ? rbuf[rpos++] : EOF; }
static int hexval (char c) { return c <= '9' ? c - '0' : (c | 32) - 'a' + 10; }
static void hex2bytes (const char *h, uint8_t *out, int n) { memset (out, 0, n); for (int i = 0; i < n && h[2 * i] && h[2 * i + 1]; i++) out[i] = hexval (h[2 * i]) << 4 | hexval (h[2 * i + 1]); }
/* replace the marker immediates 12345.5 by the special bit patterns of the case */
static void patch_specials (mh_ctx *mc, const rcase *c) {
  float fv; double dv; long double lv = 0; uint8_t b[16];
  hex2bytes (c->fbits, b, 4); memcpy (&fv, b, 4); hex2bytes (c->dbits, b, 8); memcpy (&dv, b, 8); hex2bytes (c->ldbits, b, 10); memcpy (&lv, b, 10);
  if (c->ibits[0]) { /* integer marker 1234567 -> the case's 64-bit pattern, in immediates, displacements and 8-byte data */
    int64_t iv; hex2bytes (c->ibits, b, 8); memcpy (&iv, b, 8);
    for (MIR_module_t m = DLIST_HEAD (MIR_module_t, *MIR_get_module_list (mc->ctx)); m; m = DLIST_NEXT (MIR_module_t, m))
      for (MIR_item_t it = DLIST_HEAD (MIR_item_t, m->items); it; it = DLIST_NEXT (MIR_item_t, it)) {
        if (it->item_type == MIR_func_item) {
          for (MIR_insn_t in = DLIST_HEAD (MIR_insn_t, it->u.func->insns); in; in = DLIST_NEXT (MIR_insn_t, in))
            for (unsigned k = 0; k < in->nops; k++) {
              if ((in->ops[k].mode == MIR_OP_INT || in->ops[k].mode == MIR_OP_UINT) && in->ops[k].u.i == 1234567) in->ops[k].u.i = iv;
              else if (in->ops[k].mode == MIR_OP_MEM && in->ops[k].u.mem.disp == 1234567) in->ops[k].u.mem.disp = iv;
            }
        } else if (it->item_type == MIR_data_item) {
          MIR_data_t d = it->u.data; int64_t e0;
          if ((d->el_type == MIR_T_I64 || d->el_type == MIR_T_U64 || d->el_type == MIR_T_P) && (memcpy (&e0, d->u.els, 8), e0 == 1234567)) memcpy (d->u.els, &iv, 8);
        }
      }
    return;
  }
  for (MIR_module_t m = DLIST_HEAD (MIR_module_t, *MIR_get_module_list (mc->ctx)); m; m = DLIST_NEXT (MIR_module_t, m))
    for (MIR_item_t it = DLIST_HEAD (MIR_item_t, m->items); it; it = DLIST_NEXT (MIR_item_t, it)) {
      if (it->item_type == MIR_func_item) {
        for (MIR_insn_t in = DLIST_HEAD (MIR_insn_t, it->u.func->insns); in; in = DLIST_NEXT (MIR_insn_t, in))
          for (unsigned k = 0; k < in->nops; k++) {
            if (in->ops[k].mode == MIR_OP_FLOAT && in->ops[k].u.f == 12345.5f) in->ops[k].u.f = fv;
            else if (in->ops[k].mode == MIR_OP_DOUBLE && in->ops[k].u.d == 12345.5) in->ops[k].u.d = dv;
            else if (in->ops[k].mode == MIR_OP_LDOUBLE && in->ops[k].u.ld == 12345.5L) { memset (&in->ops[k].u.ld, 0, 16); memcpy (&in->ops[k].u.ld, &lv, 10); }
          }
      } else if (it->item_type == MIR_data_item) {
        MIR_data_t d = it->u.data;
        if (d->el_type == MIR_T_F) memcpy (d->u.els, &fv, 4); else if (d->el_type == MIR_T_D) memcpy (d->u.els, &dv, 8); else if (d->el_type == MIR_T_LD) { memset (d->u.els, 0, 16); memcpy (d->u.els, &lv, 10); }
      }
    }
}

/* modules that have no text form to start from are built through the API */
static void build_api_case (mh_ctx *mc, const rcase *c) {
  MIR_context_t ctx = mc->ctx; MIR_new_module (ctx, "m");
  if (!strcmp (c->api, "vaundef")) {
    MIR_type_t rt = MIR_T_I64; MIR_item_t f = MIR_new_vararg_func (ctx, "vf", 1, &rt, 1, MIR_T_P, "vl");
    MIR_reg_t vl = MIR_reg (ctx, "vl", f->u.func), p2 = MIR_new_func_reg (ctx, f->u.func, MIR_T_I64, "p2");
    MIR_op_t um = MIR_new_mem_op (ctx, MIR_T_UNDEF, 0, vl, 0, 1);
    MIR_append_insn (ctx, f, MIR_new_insn (ctx, MIR_VA_START, um));
    MIR_append_insn (ctx, f, MIR_new_insn (ctx, MIR_VA_ARG, MIR_new_reg_op (ctx, p2), um, MIR_new_mem_op (ctx, MIR_T_D, 0, 0, 0, 1)));
    MIR_append_insn (ctx, f, MIR_new_insn (ctx, MIR_VA_END, um));
    MIR_append_insn (ctx, f, MIR_new_ret_insn (ctx, 1, MIR_new_int_op (ctx, 0)));
    MIR_finish_func (ctx);
  } else if (!strcmp (c->api, "uintop")) { /* unsigned integer operands: small, 2^63, 2^64-1 */
    MIR_type_t rt = MIR_T_I64; MIR_item_t f = MIR_new_func (ctx, "uf", 1, &rt, 1, MIR_T_I64, "a");
    MIR_reg_t a = MIR_reg (ctx, "a", f->u.func), r = MIR_new_func_reg (ctx, f->u.func, MIR_T_I64, "r");
    MIR_append_insn (ctx, f, MIR_new_insn (ctx, MIR_MOV, MIR_new_reg_op (ctx, r), MIR_new_uint_op (ctx, UINT64_MAX)));
    MIR_append_insn (ctx, f, MIR_new_insn (ctx, MIR_ADD, MIR_new_reg_op (ctx, r), MIR_new_reg_op (ctx, r), MIR_new_uint_op (ctx, (uint64_t) 1 << 63)));
    MIR_append_insn (ctx, f, MIR_new_insn (ctx, MIR_UDIV, MIR_new_reg_op (ctx, r), MIR_new_reg_op (ctx, r), MIR_new_uint_op (ctx, 5)));
    MIR_append_insn (ctx, f, MIR_new_insn (ctx, MIR_XOR, MIR_new_reg_op (ctx, r), MIR_new_reg_op (ctx, a), MIR_new_uint_op (ctx, 0x8000000000000001ull)));
    MIR_append_insn (ctx, f, MIR_new_ret_insn (ctx, 1, MIR_new_reg_op (ctx, r)));
    MIR_finish_func (ctx);
  } else if (!strcmp (c->api, "strnonul")) { /* string operand and string data whose last byte is not NUL */
    MIR_type_t rt = MIR_T_I64; MIR_var_t arg = {MIR_T_P, "s", 0}; MIR_item_t pr = MIR_new_proto_arr (ctx, "sp", 1, &rt, 1, &arg), imp = MIR_new_import (ctx, "e1");
    MIR_item_t f = MIR_new_func (ctx, "sf", 1, &rt, 0); MIR_reg_t r = MIR_new_func_reg (ctx, f->u.func, MIR_T_I64, "r");
    MIR_append_insn (ctx, f, MIR_new_call_insn (ctx, 4, MIR_new_ref_op (ctx, pr), MIR_new_ref_op (ctx, imp), MIR_new_reg_op (ctx, r), MIR_new_str_op (ctx, (MIR_str_t){3, "abc"})));
    MIR_append_insn (ctx, f, MIR_new_ret_insn (ctx, 1, MIR_new_reg_op (ctx, r)));
    MIR_finish_func (ctx);
  } else if (!strcmp (c->api, "pdata")) {
    uintptr_t v[3] = {0, 1, (uintptr_t) 1 << 40}; MIR_new_data (ctx, "pd", MIR_T_P, 3, v); MIR_new_data (ctx, NULL, MIR_T_P, 1, v + 2);
  }
  MIR_finish_module (ctx);
}

/* ---------------- structural comparison through the API ---------------- */
static char diffmsg[400];
#define DIFF(...) do { snprintf (diffmsg, sizeof diffmsg, __VA_ARGS__); return 0; } while (0)
/* position of a label insn inside its function; a sorted (pointer,index) table per function keeps big cases linear */
typedef struct { MIR_insn_t p; int i; } lidx;
static struct { MIR_func_t f; lidx *t; size_t n; } licache[2];
static int lidx_cmp (const void *a, const void *b) { uintptr_t x = (uintptr_t) ((const lidx *) a)->p, y = (uintptr_t) ((const lidx *) b)->p; return x < y ? -1 : x > y; }
static int label_index (MIR_func_t f, MIR_label_t l) {
  int slot = licache[0].f == f ? 0 : licache[1].f == f ? 1 : -1;
  if (slot < 0) { static int next; slot = next; next ^= 1; free (licache[slot].t); size_t n = 0, k = 0; int i = 0;
    for (MIR_insn_t in = DLIST_HEAD (MIR_insn_t, f->insns); in; in = DLIST_NEXT (MIR_insn_t, in)) if (in->code == MIR_LABEL) n++;
    licache[slot].t = malloc ((n + 1) * sizeof (lidx)); licache[slot].n = n; licache[slot].f = f;
    for (MIR_insn_t in = DLIST_HEAD (MIR_insn_t, f->insns); in; in = DLIST_NEXT (MIR_insn_t, in), i++) if (in->code == MIR_LABEL) { licache[slot].t[k].p = in; licache[slot].t[k++].i = i; }
    qsort (licache[slot].t, n, sizeof (lidx), lidx_cmp); }
  lidx key = {l, 0}, *r = bsearch (&key, licache[slot].t, licache[slot].n, sizeof (lidx), lidx_cmp);
  return r ? r->i : -1;
}
static void label_cache_reset (void) { licache[0].f = licache[1].f = NULL; }
static int label_index_any (MIR_module_t m, MIR_label_t l, int *fi) { /* position of a label inside its module: (function ordinal, insn ordinal) */
  int k = 0;
  for (MIR_item_t it = DLIST_HEAD (MIR_item_t, m->items); it; it = DLIST_NEXT (MIR_item_t, it)) if (it->item_type == MIR_func_item) { int i = label_index (it->u.func, l); if (i >= 0) { *fi = k; return i; } k++; }
  *fi = -1; return -1;
}
static const char *ref_name (MIR_context_t ctx, MIR_item_t it) { const char *n = MIR_item_name (ctx, it); return n ? n : "(anonymous)"; }
static int op_equal (mh_ctx *a, mh_ctx *b, MIR_func_t fa, MIR_func_t fb, MIR_op_t *x, MIR_op_t *y, const char *where) {
  /* an unsigned and a signed integer operand with the same 64 bits print alike wherever both are representable and execute alike everywhere: not a difference the property can observe */
  if (x->mode != y->mode && !((x->mode == MIR_OP_INT || x->mode == MIR_OP_UINT) && (y->mode == MIR_OP_INT || y->mode == MIR_OP_UINT))) DIFF ("%s: operand mode %d vs %d", where, x->mode, y->mode);
  switch (x->mode) {
  case MIR_OP_REG: if (strcmp (MIR_reg_name (a->ctx, x->u.reg, fa), MIR_reg_name (b->ctx, y->u.reg, fb))) DIFF ("%s: register %s vs %s", where, MIR_reg_name (a->ctx, x->u.reg, fa), MIR_reg_name (b->ctx, y->u.reg, fb)); break;
  case MIR_OP_INT: case MIR_OP_UINT: if (x->u.i != y->u.i) DIFF ("%s: integer immediate %lld vs %lld", where, (long long) x->u.i, (long long) y->u.i); break;
  case MIR_OP_FLOAT: if (memcmp (&x->u.f, &y->u.f, 4)) DIFF ("%s: float immediate bits differ", where); break;
  case MIR_OP_DOUBLE: if (memcmp (&x->u.d, &y->u.d, 8)) DIFF ("%s: double immediate bits differ", where); break;
  case MIR_OP_LDOUBLE: if (memcmp (&x->u.ld, &y->u.ld, 10)) DIFF ("%s: long double immediate bits differ", where); break;
  case MIR_OP_REF: if (x->u.ref->item_type != y->u.ref->item_type || strcmp (ref_name (a->ctx, x->u.ref), ref_name (b->ctx, y->u.ref))) DIFF ("%s: item reference differs", where); break;
  case MIR_OP_STR: if (x->u.str.len != y->u.str.len || memcmp (x->u.str.s, y->u.str.s, x->u.str.len)) DIFF ("%s: string operand differs (len %zu vs %zu)", where, x->u.str.len, y->u.str.len); break;
  case MIR_OP_LABEL: if (label_index (fa, x->u.label) != label_index (fb, y->u.label) || label_index (fa, x->u.label) < 0) DIFF ("%s: label operand refers to insn #%d vs #%d", where, label_index (fa, x->u.label), label_index (fb, y->u.label)); break;
  case MIR_OP_MEM: {
    MIR_mem_t *p = &x->u.mem, *q = &y->u.mem;
    if (p->type != q->type || (p->index != 0 && p->scale != q->scale) /* the scale is meaningless without an index */ || p->disp != q->disp) DIFF ("%s: memory type/scale/disp differ (%d,%d,%lld vs %d,%d,%lld)", where, p->type, p->scale, (long long) p->disp, q->type, q->scale, (long long) q->disp);
    if ((p->base == 0) != (q->base == 0) || (p->base && !MIR_all_blk_type_p (p->type) && strcmp (MIR_reg_name (a->ctx, p->base, fa), MIR_reg_name (b->ctx, q->base, fb)))) DIFF ("%s: memory base differs", where);
    if ((p->index == 0) != (q->index == 0) || (p->index && strcmp (MIR_reg_name (a->ctx, p->index, fa), MIR_reg_name (b->ctx, q->index, fb)))) DIFF ("%s: memory index differs", where);
    const char *an = p->alias ? MIR_alias_name (a->ctx, p->alias) : "", *bn = q->alias ? MIR_alias_name (b->ctx, q->alias) : "";
    if (strcmp (an, bn)) DIFF ("%s: alias name '%s' vs '%s'", where, an, bn);
    an = p->nonalias ? MIR_alias_name (a->ctx, p->nonalias) : ""; bn = q->nonalias ? MIR_alias_name (b->ctx, q->nonalias) : "";
    if (strcmp (an, bn)) DIFF ("%s: nonalias name '%s' vs '%s'", where, an, bn);
    break; }
  default: break;
  }
  return 1;
}
static int vars_equal (VARR (MIR_var_t) * p, VARR (MIR_var_t) * q, const char *where) {
  size_t n = p ? VARR_LENGTH (MIR_var_t, p) : 0, m = q ? VARR_LENGTH (MIR_var_t, q) : 0;
  if (n != m) DIFF ("%s: %zu vs %zu variables", where, n, m);
  for (size_t i = 0; i < n; i++) { MIR_var_t x = VARR_GET (MIR_var_t, p, i), y = VARR_GET (MIR_var_t, q, i);
    if (x.type != y.type || (x.name && y.name && strcmp (x.name, y.name)) || (MIR_all_blk_type_p (x.type) && x.size != y.size)) DIFF ("%s: variable #%zu differs", where, i); }
  return 1;
}
static int ctx_equal (mh_ctx *a, mh_ctx *b) {
  MIR_module_t ma = DLIST_HEAD (MIR_module_t, *MIR_get_module_list (a->ctx)), mb = DLIST_HEAD (MIR_module_t, *MIR_get_module_list (b->ctx));
  for (; ma && mb; ma = DLIST_NEXT (MIR_module_t, ma), mb = DLIST_NEXT (MIR_module_t, mb)) {
    if (strcmp (ma->name, mb->name)) DIFF ("module name %s vs %s", ma->name, mb->name);
    MIR_item_t ia = DLIST_HEAD (MIR_item_t, ma->items), ib = DLIST_HEAD (MIR_item_t, mb->items); int n = 0; char w[160];
    for (; ia && ib; ia = DLIST_NEXT (MIR_item_t, ia), ib = DLIST_NEXT (MIR_item_t, ib), n++) {
      snprintf (w, sizeof w, "item #%d", n);
      if (ia->item_type != ib->item_type) DIFF ("%s: kind %d vs %d", w, ia->item_type, ib->item_type);
      const char *na = MIR_item_name (a->ctx, ia), *nb = MIR_item_name (b->ctx, ib);
      if ((na == NULL) != (nb == NULL) || (na && strcmp (na, nb))) DIFF ("%s: name %s vs %s", w, na ? na : "-", nb ? nb : "-");
      switch (ia->item_type) {
      case MIR_data_item: { MIR_data_t x = ia->u.data, y = ib->u.data; size_t sz = x->nel * _MIR_type_size (a->ctx, x->el_type);
        if (x->el_type != y->el_type || x->nel != y->nel) DIFF ("%s: data type/length differ", w);
        if (x->el_type == MIR_T_LD) { for (size_t i = 0; i < x->nel; i++) if (memcmp (x->u.els + 16 * i, y->u.els + 16 * i, 10)) DIFF ("%s: long double element %zu bits differ", w, i); }
        else if (memcmp (x->u.els, y->u.els, sz)) DIFF ("%s: data bytes differ", w);
        break; }
      case MIR_bss_item: if (ia->u.bss->len != ib->u.bss->len) DIFF ("%s: bss length", w); break;
      case MIR_ref_data_item: if (ia->u.ref_data->disp != ib->u.ref_data->disp || strcmp (ref_name (a->ctx, ia->u.ref_data->ref_item), ref_name (b->ctx, ib->u.ref_data->ref_item))) DIFF ("%s: ref target/disp differ", w); break;
      case MIR_expr_data_item: if (strcmp (ref_name (a->ctx, ia->u.expr_data->expr_item), ref_name (b->ctx, ib->u.expr_data->expr_item))) DIFF ("%s: expr function differs", w); break;
      case MIR_lref_data_item: { MIR_lref_data_t x = ia->u.lref_data, y = ib->u.lref_data; int fx, fy, px, py;
        if (x->disp != y->disp || (x->label2 == NULL) != (y->label2 == NULL)) DIFF ("%s: lref disp/label2 differ", w);
        px = label_index_any (ma, x->label, &fx); py = label_index_any (mb, y->label, &fy);
        if (px != py || fx != fy || px < 0) DIFF ("%s: lref label is insn #%d of function #%d vs insn #%d of function #%d (-1 = attached to no function)", w, px, fx, py, fy);
        if (x->label2) { px = label_index_any (ma, x->label2, &fx); py = label_index_any (mb, y->label2, &fy); if (px != py || fx != fy || px < 0) DIFF ("%s: lref second label detached or moved", w); }
        break; }
      case MIR_proto_item: { MIR_proto_t x = ia->u.proto, y = ib->u.proto;
        if (x->nres != y->nres || x->vararg_p != y->vararg_p || memcmp (x->res_types, y->res_types, x->nres * sizeof (MIR_type_t))) DIFF ("%s: proto results/vararg differ", w);
        if (!vars_equal (x->args, y->args, w)) return 0; break; }
      case MIR_func_item: { MIR_func_t x = ia->u.func, y = ib->u.func;
        if (x->nres != y->nres || x->nargs != y->nargs || x->vararg_p != y->vararg_p || memcmp (x->res_types, y->res_types, x->nres * sizeof (MIR_type_t))) DIFF ("%s: function signature differs", w);
        if (!vars_equal (x->vars, y->vars, w) || !vars_equal (x->global_vars, y->global_vars, w)) return 0;
        MIR_insn_t p = DLIST_HEAD (MIR_insn_t, x->insns), q = DLIST_HEAD (MIR_insn_t, y->insns); int k = 0;
        for (; p && q; p = DLIST_NEXT (MIR_insn_t, p), q = DLIST_NEXT (MIR_insn_t, q), k++) {
          if (p->code != q->code || p->nops != q->nops) DIFF ("%s insn #%d: %s/%u vs %s/%u", w, k, MIR_insn_name (a->ctx, p->code), p->nops, MIR_insn_name (b->ctx, q->code), q->nops);
          if (p->code == MIR_LABEL) continue;
          for (unsigned o = 0; o < p->nops; o++) { char ww[200]; snprintf (ww, sizeof ww, "%s insn #%d (%s) operand %u", w, k, MIR_insn_name (a->ctx, p->code), o); if (!op_equal (a, b, x, y, &p->ops[o], &q->ops[o], ww)) return 0; }
        }
        if (p || q) DIFF ("%s: different number of insns", w);
        break; }
      default: break;
      }
    }
    if (ia || ib) DIFF ("module %s: different number of items", ma->name);
  }
  if (ma || mb) DIFF ("different number of modules");
  return 1;
}

/* run f(a,b,c,m) under the interpreter when the case is executable */
static int run_f (mh_ctx *mc, int64_t *out, uint64_t *memh) {
  MIR_item_t f = mh_find_func (mc, "f"); if (!f) return -2;
  if (mh_link (mc, E_INTERP) != 0) return -1;
  for (int i = 0; i < 3; i++) { mh_args a; memset (&a, 0, sizeof a); MIR_val_t r[4]; memset (r, 0, sizeof r); mh_mem_reset ();
    a.ni = 4; a.i[0] = i * 5 - 3; a.i[1] = 7 - i; a.i[2] = 2; a.i[3] = (int64_t) (intptr_t) mh_buf[0];
    if (mh_call (mc, f, &a, r) != 0) return -1; out[i] = r[0].i; memh[i] = mh_mem_hash (); }
  return 0;
}

void drv_case (uint64_t idx) {
  label_cache_reset ();
  rcase *c = &CS[idx]; mh_ctx a, b; size_t l1 = 0, l2 = 0; char *t1 = NULL, *t2 = NULL;
  mh_open (&a);
  if (c->api[0]) { mh_cur = &a; mh_arm (1); if (setjmp (mh_err_jb) == 0) { build_api_case (&a, c); mh_arm (0); } else { mh_arm (0); vp_fail ("harness-invalid-case", "API construction failed: %s", a.errmsg); mh_close (&a); return; } }
  else if (mh_scan (&a, c->text) != 0) { vp_fail ("harness-invalid-case", "the case text is rejected by MIR_scan_string: %s", a.errmsg); mh_close (&a); return; }
  if (c->fbits[0] || c->ibits[0]) patch_specials (&a, c);
  if (c->alias[0]) { /* the case states which alias / nonalias names its memory operands carry: the module read from the text must have exactly these */
    const char *wa = strcmp (c->alias, "-") ? c->alias : "", *wn = strcmp (c->nonalias, "-") ? c->nonalias : ""; int seen = 0;
    for (MIR_module_t m = DLIST_HEAD (MIR_module_t, *MIR_get_module_list (a.ctx)); m; m = DLIST_NEXT (MIR_module_t, m))
      for (MIR_item_t it = DLIST_HEAD (MIR_item_t, m->items); it; it = DLIST_NEXT (MIR_item_t, it)) if (it->item_type == MIR_func_item)
        for (MIR_insn_t in = DLIST_HEAD (MIR_insn_t, it->u.func->insns); in; in = DLIST_NEXT (MIR_insn_t, in))
          for (unsigned k = 0; k < in->nops; k++) if (in->ops[k].mode == MIR_OP_MEM) {
            const char *ga = in->ops[k].u.mem.alias ? MIR_alias_name (a.ctx, in->ops[k].u.mem.alias) : "", *gn = in->ops[k].u.mem.nonalias ? MIR_alias_name (a.ctx, in->ops[k].u.mem.nonalias) : ""; seen++;
            if (strcmp (ga, wa) || strcmp (gn, wn)) { vp_fail ("scanned-names-differ-from-text", "memory operand read from the text has alias '%s' nonalias '%s', the text says '%s' and '%s'", ga, gn, wa, wn); mh_close (&a); return; }
          }
    if (!seen) { vp_fail ("harness-invalid-case", "no memory operand in an alias case"); mh_close (&a); return; }
  }
  mh_open (&b);
  if (!binary_mode) {
    t1 = output_text (&a, &l1);
    if (mh_scan (&b, t1) != 0) { vp_fail ("rescan-error", "text written by MIR_output is rejected by the scanner: %s", b.errmsg); goto done; }
    t2 = output_text (&b, &l2);
    if (l1 != l2 || memcmp (t1, t2, l1) != 0) { size_t k = 0; while (k < l1 && k < l2 && t1[k] == t2[k]) k++; size_t s = k > 30 ? k - 30 : 0;
      vp_fail ("text-not-stable", "MIR_output(scan(MIR_output(m))) differs from MIR_output(m) at byte %zu: '%.60s' vs '%.60s'", k, t1 + s, t2 + s); goto done; }
  } else {
    uint8_t *b1; size_t n1;
    mh_cur = &a; wlen = 0; MIR_write_with_func (a.ctx, wr_byte); n1 = wlen; b1 = malloc (n1 + 1); memcpy (b1, wbuf, n1);
    wlen = 0; MIR_write_with_func (a.ctx, wr_byte);
    if (wlen != n1 || memcmp (wbuf, b1, n1)) { vp_fail ("write-not-deterministic", "two MIR_write_with_func calls on the same module gave different bytes (%zu vs %zu)", n1, wlen); free (b1); goto done; }
    char *fb = NULL; size_t fl = 0; FILE *mf = open_memstream (&fb, &fl); MIR_write (a.ctx, mf); fclose (mf);
    if (fl != n1 || memcmp (fb, b1, n1)) { vp_fail ("write-file-vs-callback", "MIR_write to a file and MIR_write_with_func differ (%zu vs %zu bytes)", fl, n1); free (fb); free (b1); goto done; }
    free (fb);
    rbuf = b1; rlen = n1; rpos = 0; mh_cur = &b;
    if (setjmp (mh_err_jb) == 0) { extern void mh_arm (int); mh_arm (1); MIR_read_with_func (b.ctx, rd_byte); mh_arm (0); }
    else { mh_arm (0); vp_fail ("reread-error", "binary written by MIR_write is rejected by MIR_read: %s", b.errmsg); free (b1); goto done; }
    free (b1);
    t1 = output_text (&a, &l1); t2 = output_text (&b, &l2);
    if (!c->fbits[0] && (l1 != l2 || memcmp (t1, t2, l1) != 0)) { size_t k = 0; while (k < l1 && k < l2 && t1[k] == t2[k]) k++; size_t s = k > 30 ? k - 30 : 0;
      vp_fail ("text-differs-after-binary-roundtrip", "MIR_output of the re-read module differs at byte %zu: '%.60s' vs '%.60s'", k, t1 + s, t2 + s); goto done; }
  }
  if (!ctx_equal (&a, &b)) { vp_fail ("structure-differs", "%s", diffmsg); goto done; }
  vp_outcome (vp_hash_bytes (9, t1, l1));
  if (c->run) {
    int64_t ra[3], rb[3]; uint64_t ma[3], mb2[3]; int sa = run_f (&a, ra, ma), sb = run_f (&b, rb, mb2);
    if (sa == -1) vp_fail ("harness-exec-error", "original module fails to link/run: %s", a.errmsg);
    else if (sb == -1) vp_fail ("roundtrip-exec-error", "the re-read module fails to load, link or run although the original runs: %s", b.errmsg);
    else if (sa == 0 && sb == 0 && (memcmp (ra, rb, sizeof ra) || memcmp (ma, mb2, sizeof ma))) vp_fail ("roundtrip-exec-differs", "results %lld,%lld,%lld vs %lld,%lld,%lld", (long long) ra[0], (long long) ra[1], (long long) ra[2], (long long) rb[0], (long long) rb[1], (long long) rb[2]);
    else vp_count ("executed", 1);
  } else if (binary_mode || 1) { /* non-executable cases are still loaded and linked when they are self-contained */
  }
  vp_nontrivial ();
done:
  if (idx % 211 == 0) vp_sample ("%s", c->desc);
  free (t1); free (t2); mh_close (&b); mh_close (&a);
}
