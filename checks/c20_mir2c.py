"""C20 - the C translation produced by MIR_module2c, compiled by gcc, behaves like the interpreted module."""
import os
from core import build, runner

SRCS = ["checks/c20_mir2c.c", "core/vp.c", "core/mirh.c", "core/refinterp.c"]

def run(tier):
    rep = runner.Report("C20", tier, "exploration")
    exe = build.link_driver("c20", "prod", SRCS, tus=("mir", "mir-gen", "mir2c"), ldflags=("-rdynamic",))
    wd = runner.workdir("C20-batches")
    thorough = tier == "thorough"
    env = dict(os.environ, VP_C20_DIR=wd, VP_C20_OPT="02" if thorough else "1", VP_C20_BATCH="400")
    res = runner.run_driver(exe, tier, "C20", case_timeout=20, deadline=3300 if thorough else 1500, env=env)
    rep.add_driver_result(res)
    st = res["stats"]
    rep.coverage = dict(evaluations=st.get("evaluations", 0), distinct_nontrivial=res["nontrivial"],
                        rule="case = one complete MIR program (C01 families of checks/progfam.h plus data-section, constant and multi-function families); the real MIR_module2c translates it in a forked child (2 s progress watchdog), gcc compiles batches of 400 translations "
                             "into a shared object (" + ("-O0 and -O2" if thorough else "-O1") + ", -fwrapv -fno-strict-aliasing), and the program is run on its whole input grid by MIR_interp and by the compiled translation: result + buffer bytes + external-call log compared; "
                             "evaluations = (program,input,optimization level) comparisons; non-trivial = program with at least one compared input",
                        programs=res["done"], total_programs=res["ncases"], distinct_observed_behaviours=len(res["outcomes"]),
                        programs_per_family={k[9:]: v for k, v in st.items() if k.startswith("programs:")}, unspecified_skipped=st.get("unspecified_skipped", 0), misaligned_pairs_not_compared_at_O2=st.get("misaligned_not_compared_at_O2", 0),
                        programs_undefined_on_every_input=st.get("programs_undefined_on_every_input", 0), samples=res["samples"], exhaustive=res["exhaustive"])
    rep.assumptions = ["gcc with -fwrapv -fno-strict-aliasing is the C compiler for the translation (the emitted C relies on wrapping signed arithmetic and on type-punned memory accesses)",
                       "(program,input) pairs on which refinterp meets behaviour MIR.md leaves unspecified are skipped", "a (program,input) pair that performs a memory access at an address which is not a multiple of the natural alignment of the operand type is compared at -O0/-O1 only: the translation *(T *) addr is undefined C there and gcc -O2 assumes natural alignment in store forwarding and loop dependence analysis", "modules with multiple-result functions and expr data are outside the property"]
    return rep.finish()
