"""C15 - ill-formed IR is rejected through the error callback; well-formed IR is accepted."""
from core import build, runner
SRCS = ["checks/c15_illformed.c", "core/vp.c", "core/mirh.c", "core/refinterp.c"]

def run(tier):
    rep = runner.Report("C15", tier, "exploration")
    exe = build.link_driver("c15", "prod", SRCS, tus=("mir", "mir-gen"))
    res = runner.run_driver(exe, tier, "C15", case_timeout=30, deadline=1500)
    rep.add_driver_result(res)
    st = res["stats"]
    rep.coverage = dict(evaluations=res["done"], distinct_nontrivial=res["nontrivial"],
                        rule="case = (opcode, operand kind at every position) over the full cross product of 30 operand kinds for all 1-, 2- and 3-operand opcodes, plus arity -1/+1 per opcode and 40 scripted declaration/ret/call/overflow-branch cases; "
                             "each case builds the function through the API in a fresh context; expected verdict from a rule table transcribed from MIR.md; non-trivial = case on which MIR.md decides (not 'unconstrained')",
                        expected_rejections=st.get("expected_rejections", 0), expected_acceptances=st.get("expected_acceptances", 0), unconstrained=st.get("unconstrained", 0),
                        error_codes_seen={k[8:]: v for k, v in st.items() if k.startswith("errcode:")}, samples=res["samples"], exhaustive=res["exhaustive"])
    rep.assumptions = ["references and strings used as integer values are treated as unconstrained (MIR.md does not state their operand class)", "va_* and property instructions are outside the cross product"]
    return rep.finish()
