/* C03: behaviour is independent of the execution interface chosen at link time.
   Case = (program, call history).  A program is two modules with three entry points ea, eb, ec that reach a target function t through one of
   six kinds of edge (direct call, call through a register holding the function address, through an address stored in a data item, through a
   native C callback re-entering MIR code, inline insn, direct call in a loop), t is one of six kinds (leaf, self recursion, mutual recursion
   across modules, label address + jmpi, switch + loop, native call + callback) and uses one of three signatures (1 integer; integers and
   doubles in registers; 7 integers + 9 doubles, i.e. stack arguments).  The entries update a data item, so results depend on the call order.
   A call history is every sequence of up to 3 (thorough 4) entry calls.  For every case the history is executed in a fresh context under
   MIR_interp, the interpreter's C interface, eager generation (quick -O2; thorough -O0..-O3), lazy and lazy basic-block generation; entry
   addresses are taken once, right after linking, and used for all later calls (the public address must survive the switch from stub to
   code).  Return values, the data item and the log of native calls must be identical.  DESIGN.md §3 C03. */
#include "vp.h"
#include "mirh.h"
#include <stdlib.h>
#include <string.h>
#include <stdarg.h>

#define NEDGE 6
#define NKIND 8
#define NSIG 8
static int thorough_p; static int seq_len_max = 4; static uint64_t n_seq, n_prog;
static uint64_t pow3[6] = {1, 3, 9, 27, 81, 243};

static char PT[32768]; static size_t ptl;
static void S (const char *fmt, ...) { va_list ap; va_start (ap, fmt); ptl += vsnprintf (PT + ptl, sizeof PT - ptl, fmt, ap); va_end (ap); if (ptl >= sizeof PT) ptl = sizeof PT - 1; }

/* ---------------- native side: callbacks and log ---------------- */
static struct { int id; int64_t v; } clog_[512]; static int clog_n;
static void lg (int id, int64_t v) { if (clog_n < 512) { clog_[clog_n].id = id; clog_[clog_n].v = v; } clog_n++; }
typedef int64_t (*t0_t) (int64_t);
typedef int64_t (*t1_t) (int64_t, double, int64_t, double);
typedef int64_t (*t2_t) (int64_t, int64_t, int64_t, int64_t, int64_t, int64_t, int64_t, double, double, double, double, double, double, double, double, double);
static int64_t ecb0 (void *fn, int64_t x) { lg (10, x); int64_t r = ((t0_t) fn) (x); lg (11, r); return r + 3; }
static int64_t ecb1 (void *fn, int64_t x) { lg (20, x); int64_t r = ((t1_t) fn) (x, 0.75, x * 2, -1.5); lg (21, r); return r + 3; }
static int64_t ecb2 (void *fn, int64_t x) { lg (30, x); int64_t r = ((t2_t) fn) (x, 2, 3, 4, 5, 6, 7, 0.5, 1.5, 2.5, 3.5, 4.5, 5.5, 6.5, 7.5, 8.5); lg (31, r); return r + 3; }
typedef int64_t (*t3_t) (int64_t, int8_t, uint16_t, int32_t, float, uint32_t);
typedef int64_t (*t4_t) (int64_t, ...);
static int64_t ecb3 (void *fn, int64_t x) { lg (50, x); int64_t r = ((t3_t) fn) (x, (int8_t) -100, (uint16_t) 65000, -70000, 1.75f, 4000000000u); lg (51, r); return r + 3; }
static int64_t ecb4 (void *fn, int64_t x) { lg (60, x); int64_t r = ((t4_t) fn) (x, (int64_t) 9, 0.75); lg (61, r); return r + 3; }
struct BI { int64_t a, b; }; struct BI8 { int64_t a; }; struct BS { double a, b; };
typedef int64_t (*t5_t) (int64_t, int64_t, int64_t, int64_t, struct BI);
typedef int64_t (*t6_t) (int64_t, int64_t, int64_t, int64_t, int64_t, struct BI8);
typedef int64_t (*t7_t) (int64_t, double, double, double, double, double, double, struct BS);
static int64_t ecb5 (void *fn, int64_t x) { lg (70, x); struct BI b = {41, -17}; int64_t r = ((t5_t) fn) (x, 2, 3, 4, b); lg (71, r); return r + 3; }
static int64_t ecb6 (void *fn, int64_t x) { lg (80, x); struct BI8 b = {123456789}; int64_t r = ((t6_t) fn) (x, 2, 3, 4, 5, b); lg (81, r); return r + 3; }
static int64_t ecb7 (void *fn, int64_t x) { lg (90, x); struct BS b = {6.5, -3.25}; int64_t r = ((t7_t) fn) (x, 0.5, 1.5, 2.5, 3.5, 4.5, 5.5, b); lg (91, r); return r + 3; }
static int64_t enat (int64_t x) { lg (40, x); return x * 5 + 2; }

/* ---------------- program text ---------------- */
static const char *SIG_PARAMS[] = {"i64:x", "i64:x, d:y, i64:z, d:w", "i64:x, i64:i1, i64:i2, i64:i3, i64:i4, i64:i5, i64:i6, d:d0, d:d1, d:d2, d:d3, d:d4, d:d5, d:d6, d:d7, d:d8",
                                   "i64:x, i8:c, u16:h, i32:w, f:fl, u32:uw", "i64:x, ...",
                                   /* a block passed in the last general / vector argument registers */
                                   "i64:x, i64:i1, i64:i2, i64:i3, blk1:16(bp)", "i64:x, i64:i1, i64:i2, i64:i3, i64:i4, blk1:8(bp)", "i64:x, d:d0, d:d1, d:d2, d:d3, d:d4, d:d5, blk2:16(bp)"};
/* arguments used by t when it calls itself / its partner with a new first argument %s */
static const char *SIG_SELF[] = {"%s", "%s, y, z, w", "%s, i1, i2, i3, i4, i5, i6, d0, d1, d2, d3, d4, d5, d6, d7, d8", "%s, c, h, w, fl, uw", "%s, z, y", "%s, i1, i2, i3, blk1:16(bp)", "%s, i1, i2, i3, i4, blk1:8(bp)", "%s, d0, d1, d2, d3, d4, d5, blk2:16(bp)"};
/* arguments used by an entry (i64:a, d:u) with first argument %s */
static const char *SIG_ENTRY[] = {"%s", "%s, u, 7, -1.25", "%s, 1, 2, 3, 4, 5, 6, u, 1.5, 2.5, 3.5, 4.5, 5.5, 6.5, 7.5, 8.5",
                                  /* narrow parameters receive values with set upper bits: the prototype type decides what the callee sees */
                                  "%s, 1311768467294899589, 1311768467294912510, 1311768469169962492, 2.5f, 1311768469169962492", "%s, 7, u",
                                  "%s, 2, 3, 4, blk1:16(bk)", "%s, 2, 3, 4, 5, blk1:8(bk)", "%s, u, 1.5, 2.5, 3.5, 4.5, 5.5, blk2:16(bk)"};
static void args (char *buf, size_t n, const char *tmpl, const char *first) { snprintf (buf, n, tmpl, first); }

/* v = weighted sum of all parameters: any argument that arrives damaged changes v */
static void emit_v (int sig) {
  if (sig == 4) S ("  alloca va, 32\n  va_start va\n  va_arg t1, va, i64:0\n  mov z, i64:(t1)\n  va_arg t1, va, d:0\n  dmov y, d:(t1)\n  va_end va\n");
  S ("  mov v, x\n");
  if (sig == 4) S ("  mul t1, z, 3\n  add v, v, t1\n  dmul dt, y, 4.0\n  d2i t1, dt\n  add v, v, t1\n");
  if (sig == 5) S ("  mul t1, i1, 3\n  add v, v, t1\n  mul t1, i2, 5\n  add v, v, t1\n  mul t1, i3, 7\n  add v, v, t1\n  mov t1, i64:(bp)\n  mul t1, t1, 11\n  add v, v, t1\n  mov t1, i64:8(bp)\n  mul t1, t1, 13\n  add v, v, t1\n");
  if (sig == 6) S ("  mul t1, i1, 3\n  add v, v, t1\n  mul t1, i2, 5\n  add v, v, t1\n  mul t1, i3, 7\n  add v, v, t1\n  mul t1, i4, 9\n  add v, v, t1\n  mov t1, i64:(bp)\n  mul t1, t1, 11\n  add v, v, t1\n");
  if (sig == 7) { for (int k = 0; k <= 5; k++) S ("  dmul dt, d%d, 2.0\n  d2i t1, dt\n  mul t1, t1, %d\n  add v, v, t1\n", k, k + 3); S ("  dmul dt, d:(bp), 4.0\n  d2i t1, dt\n  mul t1, t1, 17\n  add v, v, t1\n  dmul dt, d:8(bp), 4.0\n  d2i t1, dt\n  mul t1, t1, 19\n  add v, v, t1\n"); }
  if (sig == 3) S ("  mul t1, c, 3\n  add v, v, t1\n  mul t1, h, 5\n  add v, v, t1\n  mul t1, w, 7\n  add v, v, t1\n  mul t1, uw, 11\n  add v, v, t1\n  f2d dt, fl\n  dmul dt, dt, 4.0\n  d2i t1, dt\n  add v, v, t1\n");
  if (sig == 1) S ("  mul t1, z, 3\n  add v, v, t1\n  dmul dt, y, 4.0\n  d2i t1, dt\n  add v, v, t1\n  dmul dt, w, 8.0\n  d2i t1, dt\n  add v, v, t1\n");
  if (sig == 2) {
    for (int k = 1; k <= 6; k++) S ("  mul t1, i%d, %d\n  add v, v, t1\n", k, k + 1);
    for (int k = 0; k <= 8; k++) S ("  dmul dt, d%d, 2.0\n  d2i t1, dt\n  mul t1, t1, %d\n  add v, v, t1\n", k, k + 11);
  }
}
static void render (int edge, int kind, int sig) {
  char self_dec[200], self_x[200], ent_a[200], ent_a1[200];
  const char *blk_init = sig == 5 ? "  alloca bk, 16\n  mov i64:(bk), 41\n  mov i64:8(bk), -17\n" : sig == 6 ? "  alloca bk, 16\n  mov i64:(bk), 123456789\n" : sig == 7 ? "  alloca bk, 16\n  dmov d:(bk), 6.5\n  dmov d:8(bk), -3.25\n" : "";
  args (self_dec, sizeof self_dec, SIG_SELF[sig], "n"); args (self_x, sizeof self_x, SIG_SELF[sig], "x"); args (ent_a, sizeof ent_a, SIG_ENTRY[sig], "a"); args (ent_a1, sizeof ent_a1, SIG_ENTRY[sig], "b");
  ptl = 0;
  /* ---------------- module m2: state, target t, entry eb ---------------- */
  S ("m2: module\nexport st, t, eb\nimport u, enat, ecb\np_t: proto i64, %s\np_nat: proto i64, i64:x\np_cb: proto i64, p:fn, i64:x\nst: i64 0\n", SIG_PARAMS[sig]);
  S ("t: func i64, %s\n  local i64:v, i64:t1, i64:n, i64:r, i64:la, i64:k, d:dt, d:dq, f:f1, f:f2, ld:l1, ld:l2%s\n", SIG_PARAMS[sig], sig == 4 ? ", i64:va, i64:z, d:y" : "");
  emit_v (sig);
  switch (kind) {
  case 0: S ("  mul r, v, 7\n  add r, r, 1\n  ret r\n"); break;
  case 1: S ("  and n, x, 7\n  ble T0, n, 0\n  sub n, n, 1\n  call p_t, t, r, %s\n  add r, r, v\n  ret r\nT0:\n  ret v\n", self_dec); break;           /* self recursion, depth x & 7 */
  case 2: S ("  and n, x, 7\n  ble T0, n, 0\n  sub n, n, 1\n  call p_t, u, r, %s\n  mul r, r, 3\n  add r, r, v\n  ret r\nT0:\n  ret v\n", self_dec); break; /* mutual recursion through u in m1 */
  case 3: S ("  and n, x, 1\n  laddr la, TA\n  beq T1, n, 0\n  laddr la, TB\nT1:\n  jmpi la\nTA:\n  mul r, v, 11\n  ret r\nTB:\n  sub r, 5, v\n  ret r\n"); break;
  case 4: S ("  mov r, 0\n  and k, x, 3\n  add k, k, 1\nTL:\n  and n, k, 3\n  switch n, S0, S1, S2, S0\nS0:\n  add r, r, v\n  jmp TN\nS1:\n  mul r, r, 3\n  add r, r, 1\n  jmp TN\nS2:\n  xor r, r, v\nTN:\n  sub k, k, 1\n  bgt TL, k, 0\n  ret r\n"); break;
  case 6: { /* every floating point branch, both outcomes, executed repeatedly: successor blocks are generated in data dependent order */
    S ("  mov r, 0\n  mov k, 4\nTL:\n  and n, v, 3\n  i2d dt, n\n  i2d dq, k\n  d2f f1, dt\n  d2f f2, dq\n  d2ld l1, dt\n  d2ld l2, dq\n");
    static const char *FB[] = {"beq", "bne", "blt", "ble", "bgt", "bge"}; int w = 1;
    for (int ty = 0; ty < 3; ty++) for (int b = 0; b < 6; b++, w++)
      S ("  %s%s F%d, %s, %s\n  add r, r, %d\n  jmp G%d\nF%d:\n  mul r, r, 3\n  add r, r, %d\nG%d:\n", ty == 0 ? "d" : ty == 1 ? "f" : "ld", FB[b], w, ty == 0 ? "dt" : ty == 1 ? "f1" : "l1", ty == 0 ? "dq" : ty == 1 ? "f2" : "l2", w, w, w, w * 5, w);
    S ("  sub k, k, 1\n  bgt TL, k, 0\n  ret r\n"); break; }
  case 7: { /* every integer compare-and-branch code in a loop */
    S ("  mov r, 0\n  mov k, 4\nTL:\n  and n, v, 3\n  sub n, n, 1\n");
    static const char *IB[] = {"beq", "beqs", "bne", "bnes", "blt", "blts", "ublt", "ublts", "ble", "bles", "uble", "ubles", "bgt", "bgts", "ubgt", "ubgts", "bge", "bges", "ubge", "ubges"};
    for (int b = 0; b < 20; b++) S ("  %s F%d, n, k\n  add r, r, %d\n  jmp G%d\nF%d:\n  mul r, r, 3\n  add r, r, %d\nG%d:\n", IB[b], b, b + 1, b, b, b * 5 + 2, b);
    S ("  bt F30, n\n  add r, r, 77\nF30:\n  bf F31, n\n  add r, r, 99\nF31:\n  sub k, k, 1\n  bgt TL, k, 0\n  ret r\n"); break; }
  default: S ("  call p_nat, enat, r, v\n  and n, x, 3\n  ble T0, n, 0\n  sub n, n, 1\n  mov la, t\n  call p_cb, ecb, t1, la, n\n  add r, r, t1\nT0:\n  ret r\n"); break;       /* native call, then native callback re-entering t */
  }
  S ("endfunc\n");
  S ("eb: func i64, i64:a, d:u\n  local i64:r, i64:s, i64:b, i64:sp, i64:bk\n%s  add b, a, 2\n  call p_t, t, r, %s\n  mov sp, st\n  mov s, i64:(sp)\n  mul s, s, 31\n  add s, s, 2\n  add s, s, r\n  mov i64:(sp), s\n  ret r\nendfunc\nendmodule\n", blk_init, ent_a1);
  /* ---------------- module m1: partner u, entries ea and ec ---------------- */
  S ("m1: module\nexport u, ea, ec\nimport st, t, eb, ecb\np_t: proto i64, %s\np_e: proto i64, i64:a, d:u\np_cb: proto i64, p:fn, i64:x\ntab: ref t, 0\n", SIG_PARAMS[sig]);
  S ("u: func i64, %s\n  local i64:v, i64:t1, i64:n, i64:r, d:dt%s\n", SIG_PARAMS[sig], sig == 4 ? ", i64:va, i64:z, d:y" : "");
  emit_v (sig);
  S ("  and n, x, 7\n  ble U0, n, 0\n  sub n, n, 1\n  call p_t, t, r, %s\n  add r, r, 1\n  ret r\nU0:\n  add r, v, 100\n  ret r\nendfunc\n", self_dec);
  S ("ea: func i64, i64:a, d:u\n  local i64:r, i64:s, i64:fp, i64:k, i64:t1, i64:sp, i64:bk\n%s", blk_init);
  switch (edge) {
  case 0: S ("  call p_t, t, r, %s\n", ent_a); break;
  case 1: S ("  mov fp, t\n  call p_t, fp, r, %s\n", ent_a); break;
  case 2: S ("  mov fp, tab\n  mov fp, i64:(fp)\n  call p_t, fp, r, %s\n", ent_a); break;
  case 3: S ("  mov fp, t\n  call p_cb, ecb, r, fp, a\n"); break;
  case 4: S ("  inline p_t, t, r, %s\n", ent_a); break;
  default: S ("  mov r, 0\n  mov k, 3\nEL:\n  call p_t, t, t1, %s\n  mul r, r, 5\n  add r, r, t1\n  sub k, k, 1\n  bgt EL, k, 0\n", ent_a); break;
  }
  S ("  mov sp, st\n  mov s, i64:(sp)\n  mul s, s, 31\n  add s, s, 1\n  add s, s, r\n  mov i64:(sp), s\n  ret r\nendfunc\n");
  S ("ec: func i64, i64:a, d:u\n  local i64:r, i64:s, i64:b, i64:sp\n  sub b, a, 1\n  call p_e, eb, r, b, u\n  mov sp, st\n  mov s, i64:(sp)\n  mul s, s, 31\n  add s, s, 3\n  mov i64:(sp), s\n  add r, r, s\n  ret r\nendfunc\nendmodule\n");
}

/* ---------------- case space ---------------- */
void drv_init (int thorough) {
  thorough_p = thorough; seq_len_max = thorough ? 5 : 4;
  n_seq = 0; for (int l = 1; l <= seq_len_max; l++) n_seq += pow3[l];
  n_prog = NEDGE * NKIND * NSIG;
}
uint64_t drv_ncases (void) { return n_prog * n_seq; }
static int decode_seq (uint64_t s, int *seq) { int l = 1; while (s >= pow3[l]) { s -= pow3[l]; l++; } for (int i = 0; i < l; i++) { seq[i] = s % 3; s /= 3; } return l; }
static const char *EDGE_N[] = {"direct-call", "call-through-register", "call-through-data-item", "native-callback", "inline", "direct-call-in-loop"};
static const char *KIND_N[] = {"leaf", "self-recursion", "mutual-recursion-across-modules", "laddr-jmpi", "switch-loop", "native-call-and-callback", "fp-branches-loop", "int-branches-loop"};
static const char *SIG_N[] = {"1-int", "2-int-2-double", "7-int-9-double", "narrow-ints-and-float", "variadic", "block-in-last-two-int-regs", "block-in-last-int-reg", "block-in-last-two-vector-regs"};
void drv_describe (uint64_t idx, char *buf, size_t n) {
  uint64_t p = idx / n_seq, s = idx % n_seq; int seq[6], l = decode_seq (s, seq); char ss[16]; for (int i = 0; i < l; i++) ss[i] = "ABC"[seq[i]]; ss[l] = 0;
  snprintf (buf, n, "C03 edge=%s target=%s signature=%s history=%s", EDGE_N[p % NEDGE], KIND_N[p / NEDGE % NKIND], SIG_N[p / NEDGE / NKIND], ss);
}

typedef struct { int64_t ret[6]; int64_t st; uint64_t log; int nlog; int err; char msg[200]; } obs;
typedef int64_t (*entry_t) (int64_t, double);

static void run_history (int edge, int kind, int sig, const int *seq, int l, mh_engine e, int opt, obs *o) {
  memset (o, 0, sizeof *o); clog_n = 0;
  mh_ctx mc; mh_open (&mc);
  if (mh_scan (&mc, PT) != 0) { o->err = 1; snprintf (o->msg, sizeof o->msg, "scan: %s", mc.errmsg); mh_close (&mc); return; }
  MIR_load_external (mc.ctx, "ecb", sig == 0 ? (void *) ecb0 : sig == 1 ? (void *) ecb1 : sig == 2 ? (void *) ecb2 : sig == 3 ? (void *) ecb3 : sig == 4 ? (void *) ecb4 : sig == 5 ? (void *) ecb5 : sig == 6 ? (void *) ecb6 : (void *) ecb7); MIR_load_external (mc.ctx, "enat", (void *) enat);
  if (e >= E_GEN0 && e <= E_GEN3) e = (mh_engine) (E_GEN0 + opt);
  if (mh_link (&mc, e) != 0) { o->err = 1; snprintf (o->msg, sizeof o->msg, "link: %s", mc.errmsg); mh_close (&mc); return; }
  if ((e == E_LAZY || e == E_LAZYBB) && opt != 2) MIR_gen_set_optimize_level (mc.ctx, (unsigned) opt);
  static const char *EN[] = {"ea", "eb", "ec"}; MIR_item_t it[3]; void *addr[3]; MIR_item_t st = NULL;
  for (int i = 0; i < 3; i++) { it[i] = mh_find_func (&mc, EN[i]); addr[i] = it[i]->addr; } /* public addresses, taken once */
  for (MIR_module_t m = DLIST_HEAD (MIR_module_t, *MIR_get_module_list (mc.ctx)); m; m = DLIST_NEXT (MIR_module_t, m))
    for (MIR_item_t x = DLIST_HEAD (MIR_item_t, m->items); x; x = DLIST_NEXT (MIR_item_t, x)) if (x->item_type == MIR_data_item && x->u.data->name && !strcmp (x->u.data->name, "st")) st = x;
  for (int i = 0; i < l; i++) {
    int64_t a = 5 + 3 * i + seq[i]; double u = 0.25 + i;
    mh_cur = &mc; mh_arm (1);
    if (setjmp (mh_err_jb) != 0) { mh_arm (0); o->err = 1; snprintf (o->msg, sizeof o->msg, "MIR error during call %d: %s", i, mc.errmsg); mh_close (&mc); return; }
    if (e == E_INTERP) { MIR_val_t v[2], r; v[0].i = a; v[1].d = u; r.i = 0; MIR_interp_arr (mc.ctx, it[seq[i]], &r, 2, v); o->ret[i] = r.i; }
    else o->ret[i] = ((entry_t) addr[seq[i]]) (a, u);
    mh_arm (0);
    lg (99, o->ret[i]);
  }
  memcpy (&o->st, st->addr, 8);
  o->nlog = clog_n; o->log = vp_hash_bytes (3, clog_, sizeof clog_[0] * (clog_n < 512 ? clog_n : 512));
  mh_close (&mc);
}

void drv_case (uint64_t idx) {
  uint64_t p = idx / n_seq, s = idx % n_seq; int edge = p % NEDGE, kind = p / NEDGE % NKIND, sig = (int) (p / NEDGE / NKIND);
  int seq[6], l = decode_seq (s, seq);
  render (edge, kind, sig);
  if (vp_verbose) { FILE *pf = fopen ("/tmp/vp_case.mir", "w"); if (pf) { fputs (PT, pf); fclose (pf); } }
  obs ref, o; run_history (edge, kind, sig, seq, l, E_INTERP, 2, &ref);
  if (ref.err) { vp_fail ("mir-error", "MIR_interp: %s", ref.msg); return; }
  if (vp_verbose) for (int i = 0; i < l; i++) fprintf (stderr, "ref ret[%d]=%#llx st=%#llx\n", i, (unsigned long long) ref.ret[i], (unsigned long long) ref.st);
  uint64_t beh = 11; for (int i = 0; i < l; i++) beh = vp_hash_u64 (beh, (uint64_t) ref.ret[i]); beh = vp_hash_u64 (beh, (uint64_t) ref.st); beh = vp_hash_u64 (beh, ref.log); vp_outcome (beh);
  static const mh_engine ENG[] = {E_ISHIM, E_GEN2, E_LAZY, E_LAZYBB}; uint64_t compared = 0;
  for (int ei = 0; ei < 4; ei++)
    for (int opt = (ENG[ei] != E_ISHIM ? 0 : 2); opt <= (thorough_p && ENG[ei] != E_ISHIM ? 3 : 2); opt += (thorough_p || ENG[ei] == E_ISHIM ? 1 : 2)) {
      run_history (edge, kind, sig, seq, l, ENG[ei], opt, &o); compared++;
      const char *en = ENG[ei] == E_ISHIM ? "interp-interface" : ENG[ei] == E_GEN2 ? "gen" : ENG[ei] == E_LAZY ? "lazy-gen" : "lazy-bb-gen";
      if (o.err) { vp_fail ("mir-error", "interface=%s -O%d: %s", en, opt, o.msg); goto out; }
      for (int i = 0; i < l; i++) if (o.ret[i] != ref.ret[i]) { vp_fail ("interface-changes-behaviour", "interface=%s -O%d: call #%d (%c) returned %#llx, MIR_interp %#llx", en, opt, i, "ABC"[seq[i]], (unsigned long long) o.ret[i], (unsigned long long) ref.ret[i]); goto out; }
      if (o.st != ref.st) { vp_fail ("interface-changes-behaviour", "interface=%s -O%d: data item st is %#llx, MIR_interp %#llx", en, opt, (unsigned long long) o.st, (unsigned long long) ref.st); goto out; }
      if (o.log != ref.log || o.nlog != ref.nlog) { vp_fail ("interface-changes-behaviour", "interface=%s -O%d: log of native calls differs (%d vs %d entries)", en, opt, o.nlog, ref.nlog); goto out; }
    }
out:
  vp_count ("evaluations", compared); vp_nontrivial ();
  if (s == 0) { char key[80]; snprintf (key, sizeof key, "programs:%s", EDGE_N[edge]); vp_count (key, 1); }
  if (idx % 9973 == 0) { char d[300]; drv_describe (idx, d, sizeof d); vp_sample ("%s", d); }
}
