"""C11 - binary MIR written by MIR_write reads back as the same module, deterministically."""
import importlib
c10 = importlib.import_module("checks.c10_text_roundtrip")

def run(tier):
    return c10.run_mode("C11", tier, "binary", "MIR_write_with_func twice (identical bytes) and MIR_write to a file (same bytes), MIR_read_with_func in a fresh context, equal MIR_output text, "
                        "bit-exact API-level comparison of every immediate/data byte/label attachment, equal interpretation results for executable cases")
