"""C08 - c2mir lays out and passes C data exactly as the platform ABI (gcc) does.
Exhaustive: all struct and union declarations with <=2 (thorough 3) members over a 30-member alphabet; sizeof, _Alignof,
offsetof of every addressable member, byte image of every bit-field; by-value passing/returning of every such type of
size <= 32 in both directions between c2mir code and gcc code at several parameter positions."""
import itertools, os, re, subprocess, concurrent.futures as cf
from core import build, runner

# (declaration template with {n} = member index, kind, inner names for offsetof, bit-field sign or None)
M = [("char m{n};", "s", ["m{n}"], None), ("short m{n};", "s", ["m{n}"], None), ("int m{n};", "s", ["m{n}"], None), ("long m{n};", "s", ["m{n}"], None),
     ("float m{n};", "f", ["m{n}"], None), ("double m{n};", "f", ["m{n}"], None), ("long double m{n};", "f", ["m{n}"], None),
     ("char m{n}[3];", "a", ["m{n}"], None), ("int m{n}[2];", "a", ["m{n}"], None),
     ("int m{n}:1;", "b", [], "s"), ("int m{n}:7;", "b", [], "s"), ("unsigned m{n}:9;", "b", [], "u"), ("short m{n}:5;", "b", [], "s"), ("char m{n}:3;", "b", [], "s"),
     ("long m{n}:33;", "b", [], "s"), ("unsigned long m{n}:64;", "b", [], "u"),
     # widths that exactly fill the rest of a storage unit behind a char / short / int member
     ("int m{n}:24;", "b", [], "s"), ("int m{n}:16;", "b", [], "s"), ("short m{n}:8;", "b", [], "s"), ("long m{n}:32;", "b", [], "s"), ("long m{n}:56;", "b", [], "s"), ("unsigned m{n}:31;", "b", [], "u"), ("int m{n}:32;", "b", [], "s"), ("int :0;", "z", [], None), ("char :0;", "z", [], None), ("long :0;", "z", [], None),
     ("struct {{ char c; }} m{n};", "n", ["m{n}", "m{n}.c"], None), ("struct {{ long l; double d; }} m{n};", "n", ["m{n}", "m{n}.l", "m{n}.d"], None),
     ("union {{ int ai{n}; float af{n}; }};", "an", ["ai{n}", "af{n}"], None), ("struct {{ char ac{n}; short as{n}; }};", "an", ["ac{n}", "as{n}"], None)]

PRE = """#include <stdio.h>
#include <string.h>
#include <stddef.h>
static void dump (const void *p, size_t n) { const unsigned char *c = p; for (size_t i = 0; i < n; i++) printf ("%02x", c[i]); }
"""


def type_decl(k, su, members):
    return "%s T%d { %s };" % (su, k, " ".join(M[m][0].format(n=i) for i, m in enumerate(members)))


def gen_types(maxm):
    types = []
    for n in range(1, maxm + 1):
        for members in itertools.product(range(len(M)), repeat=n):
            if all(M[m][1] == "z" for m in members):
                continue  # a struct with no named member is not valid C
            for su in ("struct", "union"):
                types.append((su, members))
    return types


def layout_tu(types, base):
    out = [PRE]
    calls = []
    for j, (su, members) in enumerate(types):
        k = base + j
        out.append(type_decl(k, su, members))
        body = ["static void t%d (void) { %s T%d v; printf (\"T%d %%zu %%zu\", sizeof (v), _Alignof (%s T%d));" % (k, su, k, k, su, k)]
        for i, m in enumerate(members):
            for nm in M[m][2]:
                body.append("printf (\" %s@%%zu\", offsetof (%s T%d, %s));" % (nm.format(n=i), su, k, nm.format(n=i)))
            if M[m][1] == "b":
                body.append("memset (&v, 0, sizeof v); v.m%d = %s; printf (\" m%d=\"); dump (&v, sizeof v);" % (i, "-1" if M[m][3] == "s" else "~0ul", i))
        body.append("printf (\"\\n\"); }")
        out.append(" ".join(body))
        calls.append("t%d ();" % k)
    out.append("int main (void) { %s return 0; }" % " ".join(calls))
    return "\n".join(out) + "\n"


def run_prog(cmd, timeout=300):
    try:
        r = subprocess.run(cmd, capture_output=True, text=True, errors="replace", timeout=timeout)
        return r.returncode, r.stdout, r.stderr
    except subprocess.TimeoutExpired:
        return -14, "", "timeout"


def layout_batch(args):
    bi, types, base, wd, c2m = args
    src = os.path.join(wd, "l%d.c" % bi); exe = os.path.join(wd, "l%d.exe" % bi)
    open(src, "w").write(layout_tu(types, base))
    rc, out, err = run_prog(["gcc", "-w", "-O0", src, "-o", exe])
    if rc != 0:
        return dict(infra="gcc rejected the generated layout TU: " + err[:300])
    _, gout, _ = run_prog([exe])
    crc, cout, cerr = run_prog([c2m, src, "-ei"])
    g = {l.split()[0]: l for l in gout.splitlines() if l.startswith("T")}
    c = {l.split()[0]: l for l in cout.splitlines() if l.startswith("T")}
    fails = []
    if crc != 0 and not c:
        # c2m rejected the TU: find the offending types one by one (rare; only on c2m limitations)
        return dict(reject=(crc, cerr[:400]), g=g, types=types, base=base)
    for j, (su, members) in enumerate(types):
        k = "T%d" % (base + j)
        if g.get(k) != c.get(k):
            fails.append((su, members, g.get(k, "<missing>"), c.get(k, "<missing>")))
    os.remove(src); os.remove(exe)
    return dict(fails=fails, n=len(types), g=g)


# ----------------------------------------------------------------------------------------------- by-value passing
def fill_code(k, su, members):
    """fill_k / chk_k shared by both compilers"""
    sets = []
    for i, m in enumerate(members):
        kind = M[m][1]
        if kind in ("s", "b"): sets.append("p->m%d = seed * 31 + %d;" % (i, 7 * i + 1))
        elif kind == "f": sets.append("p->m%d = seed * 0.5 + %d;" % (i, i + 1))
        elif kind == "a": sets.append("for (int j = 0; j < (int) (sizeof p->m%d / sizeof p->m%d[0]); j++) p->m%d[j] = seed + j + %d;" % (i, i, i, i))
        elif kind == "n": sets.append(("p->m%d.c = seed + %d;" % (i, i)) if "char c;" in M[m][0] else ("p->m%d.l = seed * 1000003L + %d; p->m%d.d = seed + 0.25;" % (i, i, i)))
        elif kind == "an": sets.append(("p->ai%d = seed * 77 + %d;" % (i, i)) if "union" in M[m][0] else ("p->ac%d = seed + %d; p->as%d = seed * 3 + 1;" % (i, i, i)))
        if su == "union" and kind != "z": break  # a union holds one member: the first named one
    cmps = []
    for i, m in enumerate(members):
        kind = M[m][1]
        if kind in ("s", "b", "f"): cmps.append("bad += p->m%d != q.m%d;" % (i, i))
        elif kind == "a": cmps.append("bad += memcmp (p->m%d, q.m%d, sizeof q.m%d) != 0;" % (i, i, i))
        elif kind == "n": cmps.append(("bad += p->m%d.c != q.m%d.c;" % (i, i)) if "char c;" in M[m][0] else ("bad += p->m%d.l != q.m%d.l || p->m%d.d != q.m%d.d;" % (i, i, i, i)))
        elif kind == "an": cmps.append(("bad += p->ai%d != q.ai%d;" % (i, i)) if "union" in M[m][0] else ("bad += p->ac%d != q.ac%d || p->as%d != q.as%d;" % (i, i, i, i)))
        if su == "union" and kind != "z": break
    T = "%s T%d" % (su, k)
    return ("static void fill%d (%s *p, int seed) { memset (p, 0, sizeof *p); %s }\n"
            "static int chk%d (const %s *p, int seed) { %s q; int bad = 0; fill%d (&q, seed); %s return bad; }\n") % (k, T, " ".join(sets), k, T, T, k, " ".join(cmps))


VARIANTS = [("first", "", ""), ("after5i", "long a1, long a2, long a3, long a4, long a5, ", "1, 2, 3, 4, 5, "), ("after6i", "long a1, long a2, long a3, long a4, long a5, long a6, ", "1, 2, 3, 4, 5, 6, "),
            ("after7d", "double d1, double d2, double d3, double d4, double d5, double d6, double d7, ", "1., 2., 3., 4., 5., 6., 7., "),
            ("after8d", "double d1, double d2, double d3, double d4, double d5, double d6, double d7, double d8, ", "1., 2., 3., 4., 5., 6., 7., 8., "),
            # more scalars than registers of one kind: an aggregate that only needs the other kind still goes to registers
            ("after8i", "long a1, long a2, long a3, long a4, long a5, long a6, long a7, long a8, ", "1, 2, 3, 4, 5, 6, 7, 8, "),
            ("after10d", "double d1, double d2, double d3, double d4, double d5, double d6, double d7, double d8, double d9, double d10, ", "1., 2., 3., 4., 5., 6., 7., 8., 9., 10., "),
            ("after4i6d", "long a1, double d1, long a2, double d2, long a3, double d3, long a4, double d4, double d5, double d6, ", "1, 1., 2, 2., 3, 3., 4, 4., 5., 6., ")]


def pass_sources(types, base):
    hdr = ["#include <stdio.h>", "#include <string.h>"]
    lib = []; mainc = []; calls = []
    for j, (su, members) in enumerate(types):
        k = base + j; T = "%s T%d" % (su, k)
        hdr.append(type_decl(k, su, members)); hdr.append(fill_code(k, su, members))
        lib.append("%s gret%d (int seed) { %s v; fill%d (&v, seed); return v; }" % (T, k, T, k))
        for vn, params, _ in VARIANTS:
            chk = " + (a1 != 1) + (a5 != 5)" if "a5" in params else (" + (d1 != 1.) + (d7 != 7.)" if "d7" in params else "")
            lib.append("int gtake_%s%d (%s%s s, int tail) { return chk%d (&s, %d)%s + (tail != 99); }" % (vn, k, params, T, k, k % 50 + 3, chk))
        lib.append("int gcall%d (%s (*cb) (long, %s, double)) { %s v, r; fill%d (&v, 11); r = cb (5, v, 2.5); return chk%d (&r, 12); }" % (k, T, T, T, k, k))
        mainc.append("extern %s gret%d (int seed);" % (T, k))
        for vn, params, _ in VARIANTS:
            mainc.append("extern int gtake_%s%d (%s%s s, int tail);" % (vn, k, params, T))
        mainc.append("extern int gcall%d (%s (*cb) (long, %s, double));" % (k, T, T))
        mainc.append("static int cbbad%d; static %s cb%d (long x, %s s, double y) { %s r; cbbad%d = chk%d (&s, 11) + (x != 5) + (y != 2.5); fill%d (&r, 12); return r; }" % (k, T, k, T, T, k, k, k))
        body = ["{ %s v = gret%d (%d); int bad = chk%d (&v, %d); printf (\"P%d ret %%s\\n\", bad ? \"BAD\" : \"ok\");" % (T, k, k % 40 + 1, k, k % 40 + 1, k)]
        body.append("fill%d (&v, %d);" % (k, k % 50 + 3))
        for vn, _, args in VARIANTS:
            body.append("printf (\"P%d %s %%s\\n\", gtake_%s%d (%sv, 99) ? \"BAD\" : \"ok\");" % (k, vn, vn, k, args))
        body.append("{ int r = gcall%d (cb%d); printf (\"P%d callback %%s %%s\\n\", cbbad%d ? \"BAD\" : \"ok\", r ? \"BAD\" : \"ok\"); } }" % (k, k, k, k))
        calls.append(" ".join(body))
    h = "\n".join(hdr) + "\n"
    return h + "\n".join(lib) + "\n", h + "\n".join(mainc) + "\nint main (void) {\n" + "\n".join(calls) + "\nreturn 0; }\n"


def pass_run(tag, types, wd, c2m):
    """compile + run one group of types; returns (gcc lines, {engine: (rc, lines, stderr)}) or an infra string"""
    libc_ = os.path.join(wd, "p%s_lib.c" % tag); so = os.path.join(wd, "libp%s.so" % tag); mainc = os.path.join(wd, "p%s_main.c" % tag); exe = os.path.join(wd, "p%s.exe" % tag)
    ls, ms = pass_sources(types, 0)
    open(libc_, "w").write(ls); open(mainc, "w").write(ms)
    try:
        rc, _, err = run_prog(["gcc", "-w", "-O1", "-shared", "-fPIC", libc_, "-o", so])
        if rc != 0:
            return "gcc rejected the generated passing library: " + err[:300]
        # reference: the same main compiled by gcc (validates the harness itself)
        rc, _, err = run_prog(["gcc", "-w", "-O1", mainc, "-L" + wd, "-lp%s" % tag, "-Wl,-rpath," + wd, "-o", exe])
        if rc != 0:
            return "gcc rejected the generated passing main: " + err[:300]
        _, gout, _ = run_prog([exe])
        gl = [l for l in gout.splitlines() if l.startswith("P")]
        if any("BAD" in l for l in gl):
            return "harness self-check failed under gcc: " + [l for l in gl if "BAD" in l][0]
        res = {}
        for eng in ("-ei", "-eg"):
            crc, cout, cerr = run_prog([c2m, "-L" + wd, "-lp%s" % tag, mainc, eng])
            res[eng] = (crc, [l for l in cout.splitlines() if l.startswith("P")], cerr[:300])
        return gl, res
    finally:
        for f in (libc_, so, mainc, exe):
            try: os.remove(f)
            except OSError: pass


def pass_group(tag, types, wd, c2m, fails, counter):
    r = pass_run(tag, types, wd, c2m)
    if isinstance(r, str):
        fails.append(("harness", None, "-", r)); return
    gl, res = r
    for eng, (crc, cl, cerr) in res.items():
        if (crc < 0 or len(cl) < len(gl)) and len(types) > 1:
            # c2m died (its buffered output is lost): bisect down to the single type that kills it
            h = len(types) // 2
            sub = []
            pass_group(tag + "a", types[:h], wd, c2m, fails, counter); pass_group(tag + "b", types[h:], wd, c2m, fails, counter)
            return
    for eng, (crc, cl, cerr) in res.items():
        seen = {" ".join(l.split()[:2]): l for l in cl}
        for l in gl:
            key = " ".join(l.split()[:2]); k = int(l.split()[0][1:])
            counter[0] += 1
            if key not in seen:
                fails.append((eng, types[k], key, "c2m died (exit %d) running the program of this single type %s" % (crc, cerr.replace("\n", " ")[:120]))); break
            elif "BAD" in seen[key]:
                fails.append((eng, types[k], key, seen[key]))


def pass_batch(args):
    bi, types, base, wd, c2m = args
    fails = []; counter = [0]
    pass_group("%d" % bi, types, wd, c2m, fails, counter)
    infra = [f for f in fails if f[0] == "harness"]
    if infra:
        return dict(infra=infra[0][3])
    return dict(fails=fails, n=counter[0])


def describe(su, members):
    return "%s { %s }" % (su, " ".join(M[m][0].format(n=i) for i, m in enumerate(members)))


def run(tier):
    rep = runner.Report("C08", tier, "exploration")
    thorough = tier == "thorough"
    c2m = build.c2m("prod"); wd = runner.workdir("C08")
    types = gen_types(3 if thorough else 2)
    B = 600
    batches = [(i // B, types[i:i + B], i, wd, c2m) for i in range(0, len(types), B)]
    sizes = {}; nlayout = 0
    with cf.ThreadPoolExecutor(max_workers=runner.NCPU) as ex:
        for (bi, tys, base, _, _), r in zip(batches, ex.map(layout_batch, batches)):
            if "infra" in r:
                rep.add_fail("C08 layout batch %d" % bi, "harness", r["infra"]); continue
            if "reject" in r:
                rep.add_fail("C08 layout batch %d" % bi, "c2m-rejects", "c2m fails on a TU of %d type declarations: exit %d %s" % (len(tys), r["reject"][0], r["reject"][1])); continue
            nlayout += r["n"]
            for su, members, gl, cl in r["fails"]:
                rep.add_fail("C08 layout type=%s zero_width=%d" % (describe(su, members), int(any(M[m][1] == "z" for m in members))), "layout-differs", "gcc: %s | c2m: %s" % (gl[:200], cl[:200]))
            for k, l in r["g"].items():
                sizes[int(k[1:])] = int(l.split()[1])
    # passing: all types of size <= 32 (gcc's size); thorough: three-member types restricted to those without bit-fields to bound the cost
    ptypes = [(i, t) for i, t in enumerate(types) if sizes.get(i, 99) <= 32 and (len(t[1]) <= 2 or all(M[m][1] not in ("b", "z") for m in t[1]))]
    PB = 150
    pb = [(i // PB, [t for _, t in ptypes[i:i + PB]], 0, wd, c2m) for i in range(0, len(ptypes), PB)]
    npass = 0
    with cf.ThreadPoolExecutor(max_workers=runner.NCPU) as ex:
        for (bi, tys, base, _, _), r in zip(pb, ex.map(pass_batch, pb)):
            if "infra" in r:
                rep.add_fail("C08 passing batch %d" % bi, "harness", r["infra"]); continue
            npass += r["n"]
            for eng, (su, members), key, line in r["fails"]:
                rep.add_fail("C08 passing engine=%s type=%s position=%s" % (eng, describe(su, members), key.split()[1]), "passing-differs", line)
    rep.coverage = dict(evaluations=nlayout + npass, distinct_nontrivial=nlayout,
                        rule="layout: every struct and union declaration with 1..%d members over a 30-member alphabet (scalars, arrays, bit-fields of widths 1,3,5,7,8,9,16,24,31,32,33,56,64 incl. three zero-width forms, nested and anonymous aggregates): sizeof, _Alignof, offsetof of every addressable member and the byte image of every bit-field set to all ones, "
                             "c2m -ei output against the gcc-built program; passing: every such type of size <= 32 returned from gcc code, passed to gcc code as first argument / after 5, 6 or 8 integer / after 7, 8 or 10 double / after 4 integer and 6 double arguments, and passed to and returned from a c2mir callback called by gcc code, under c2m -ei and -eg" % (3 if thorough else 2),
                        layout_types=nlayout, passing_checks=npass, samples=[describe(*t) for t in types[::max(1, len(types) // 5)]][:5], exhaustive=True)
    rep.assumptions = ["gcc on this machine is the platform ABI reference", "#pragma pack / attributes are not supported by c2mir and not generated"]
    return rep.finish()
