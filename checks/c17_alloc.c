/* C17 - all memory goes through the user's allocators and is released at finish; code pages are written only
   inside a write window.  BFS over legal API histories on a context created with checking allocators
   (ledger with sizes, quarantine, write-protected code pages, libc allocator calls from library objects trapped
   through --wrap).  DESIGN.md §3 C17. */
#define _GNU_SOURCE
#include "vp.h"
#include "bfs.h"
#include <stdarg.h>
#include <string.h>
#include <setjmp.h>
#include "chkalloc.h"
#include "mir.h"
#include "mir-gen.h"
#include "c2mir/c2mir.h"

static void failh (const char *kind, const char *fmt, ...) {
  char hist[700], msg[600]; va_list ap; bfs_history_text (hist, sizeof hist); va_start (ap, fmt); vsnprintf (msg, sizeof msg, fmt, ap); va_end (ap);
  vp_fail (kind, "history=[%s] %s", hist, msg);
}
static int reported[16]; /* one report per kind and world is enough */
static const char *KINDS[] = {"free-unknown", "double-free", "realloc-unknown", "realloc-freed", "realloc-old-size", "write-after-free", "leak", "code-leak", "unmap-size", "unmap-unknown", "protect-unknown", "infra", "libc-direct"};
void chk_error (const char *kind, const char *fmt, ...) {
  char msg[400]; va_list ap; va_start (ap, fmt); vsnprintf (msg, sizeof msg, fmt, ap); va_end (ap);
  for (int i = 0; i < 13; i++) if (!strcmp (kind, KINDS[i])) { if (reported[i]++) return; }
  failh (kind, "%s", msg);
}

/* ---- libc allocator calls made directly by library objects (linked with --wrap) ---- */
static int in_api, in_cb; static chk_state *cur_chk;
#if !defined(__SANITIZE_ADDRESS__) /* the asan build is linked without --wrap: ASan owns the libc allocator there */
void *__real_malloc (size_t); void *__real_calloc (size_t, size_t); void *__real_realloc (void *, size_t); void __real_free (void *);
static void direct (const char *what) { if (in_api && !in_cb) { in_cb++; chk_error ("libc-direct", "library code called %s() directly instead of the context's allocator", what); in_cb--; } }
void *__wrap_malloc (size_t n) { direct ("malloc"); return __real_malloc (n); }
void *__wrap_calloc (size_t a, size_t b) { direct ("calloc"); return __real_calloc (a, b); }
void *__wrap_realloc (void *p, size_t n) { direct ("realloc"); return __real_realloc (p, n); }
void __wrap_free (void *p) {
  if (p) direct ("free");
  if (p && in_api && !in_cb && cur_chk && cur_chk->cap) { size_t i = chk_slot (cur_chk, p); if (cur_chk->tab[i].state == 1) return; } /* a block of the user's allocator handed to libc free: leave it to the ledger (it shows as a leak) */
  __real_free (p);
}
#endif
/* allocator callbacks run "outside" the library */
static void *cb_malloc (size_t n, void *ud) { in_cb++; void *p = chk_malloc (n, ud); in_cb--; return p; }
static void *cb_calloc (size_t a, size_t b, void *ud) { in_cb++; void *p = chk_calloc (a, b, ud); in_cb--; return p; }
static void *cb_realloc (void *p, size_t o, size_t n, void *ud) { in_cb++; void *r = chk_realloc (p, o, n, ud); in_cb--; return r; }
static void cb_free (void *p, void *ud) { in_cb++; chk_free (p, ud); in_cb--; }
static void *cb_map (size_t n, void *ud) { in_cb++; void *p = chk_mem_map (n, ud); in_cb--; return p; }
static int cb_unmap (void *p, size_t n, void *ud) { in_cb++; int r = chk_mem_unmap (p, n, ud); in_cb--; return r; }
static int cb_protect (void *p, size_t n, MIR_mem_protect_t pr, void *ud) { in_cb++; int r = chk_mem_protect (p, n, pr, ud); in_cb--; return r; }

/* ---- the world ---- */
enum { C_API, C_SCAN, C_BIN, C_C2M, NCREATE };
enum { O_CREATE0 = 0, O_LOAD = NCREATE, O_LINK_INTERP, O_LINK_GEN, O_LINK_LAZY, O_LINK_LAZYBB, O_RUN, O_GEN, O_OUTPUT, O_WRITE, NOPS };
static const char *ONAME[] = {"create(api)", "create(scan)", "create(read)", "create(c2mir)", "load", "link(interp)", "link(gen)", "link(lazy)", "link(lazy-bb)", "run", "gen", "output", "write"};
static const char *FNAME[] = {"fa", "fs", "fb", "fc"};
typedef struct { chk_state chk; struct MIR_alloc alloc; struct MIR_code_alloc calloc_; MIR_context_t ctx; int created[NCREATE], loaded[NCREATE], linked[NCREATE], iface /*0 none 1 interp 2 gen*/, gen_init, c2m_init, dead; MIR_module_t mod[NCREATE]; int level; } world;
static jmp_buf err_jb; static int err_armed; static char errmsg[300];
static void MIR_NO_RETURN on_error (MIR_error_type_t t, const char *fmt, ...) { va_list ap; va_start (ap, fmt); vsnprintf (errmsg, sizeof errmsg, fmt, ap); va_end (ap); if (!err_armed) { fprintf (stderr, "C17: MIR error outside trap: %s\n", errmsg); abort (); } longjmp (err_jb, 1); }
static uint8_t BIN[4096]; static size_t bin_len, bin_pos;
static int bin_wr (MIR_context_t c, uint8_t b) { if (bin_len < sizeof BIN) BIN[bin_len++] = b; return 1; }
static int bin_rd (MIR_context_t c) { return bin_pos < bin_len ? BIN[bin_pos++] : EOF; }
static int null_wr (MIR_context_t c, uint8_t b) { return 1; }
/* the source walks more of c2mir's allocation sites: identical and empty macro redefinitions, function-like macros with stringification and pasting, #if, a struct, a string, a switch */
static const char *CSRC = "#define N 4\n#define N 4\n#define F(x) ((x) + 1)\n#define F(x) ((x) + 1)\n#define E\n#define E\n#define S(x) #x\n#define C(a, b) a ## b\n#undef E\n#if N > 3 && defined (F)\n"
                          "struct P { int a; char s[4]; };\nlong fc (long x) { long a[N]; struct P p = {3, S (ab)}; for (int i = 0; i < N; i++) a[i] = F (x) + i; switch (x & 1) { case 0: x++; break; default: x--; } return a[3] * 2 + 1 + p.a + p.s[0] + C (x, ) * 0; }\n#endif\n"; static size_t cpos;
static int cgetc (void *d) { return CSRC[cpos] ? CSRC[cpos++] : EOF; }

static void *w_fresh (void *cfg) {
  world *w = calloc (1, sizeof *w); memset (reported, 0, sizeof reported);
  w->alloc = (struct MIR_alloc){cb_malloc, cb_calloc, cb_realloc, cb_free, &w->chk}; w->calloc_ = (struct MIR_code_alloc){cb_map, cb_unmap, cb_protect, &w->chk};
  cur_chk = &w->chk; in_api++; w->ctx = MIR_init2 (&w->alloc, &w->calloc_); MIR_set_error_func (w->ctx, on_error); in_api--; w->level = 2;
  return w;
}
static MIR_item_t find_func (world *w, int k) { if (!w->mod[k]) return NULL; for (MIR_item_t it = DLIST_HEAD (MIR_item_t, w->mod[k]->items); it; it = DLIST_NEXT (MIR_item_t, it)) if (it->item_type == MIR_func_item && !strcmp (it->u.func->name, FNAME[k])) return it; return NULL; }
static void w_destroy (void *p) {
  world *w = p;
  if (!w->dead) { /* mandatory finish sequence, then the ledger must be empty */
    err_armed = 1; in_api++;
    if (setjmp (err_jb) == 0) { if (w->gen_init) MIR_gen_finish (w->ctx); if (w->c2m_init) c2mir_finish (w->ctx); MIR_finish (w->ctx); }
    else { bfs_cur_op = -1; failh ("mir-error", "finish sequence raised: %s", errmsg); w->dead = 1; }
    in_api--; err_armed = 0;
  }
  bfs_cur_op = -1; cur_chk = &w->chk;
  if (!w->dead) { size_t lb = w->chk.live_blocks, lbytes = w->chk.live_bytes, lm = w->chk.live_maps;
    if (lb || lm) { char sz[200] = ""; size_t k = 0; for (size_t i = 0; i < w->chk.cap && k < 150; i++) if (w->chk.tab[i].state == 1) k += snprintf (sz + k, sizeof sz - k, "%zu ", w->chk.tab[i].size);
#ifdef CHK_BT
      for (size_t i = 0; i < w->chk.cap; i++) if (w->chk.tab[i].state == 1) { fprintf (stderr, "LEAK %zu bytes:\n", w->chk.tab[i].size); backtrace_symbols_fd (w->chk.tab[i].bt, w->chk.tab[i].nbt, 2); }
#endif
      failh ("leak", "%zu heap blocks (%zu bytes: sizes %s) and %zu code regions still allocated after gen_finish/c2mir_finish/finish", lb, lbytes, sz, lm); } }
  chk_reset (&w->chk, 0); free (w);
}
static void w_opname (int op, char *buf, size_t n) { snprintf (buf, n, "%s", ONAME[op]); }
static MIR_module_t last_module (world *w) { return DLIST_TAIL (MIR_module_t, *MIR_get_module_list (w->ctx)); }

static int w_apply (void *p, int op, int step, int check) {
  world *w = p; MIR_context_t ctx = w->ctx; if (w->dead) return 0;
  /* legality */
  int any_unloaded = 0, any_unlinked = 0, any_linked = 0;
  for (int k = 0; k < NCREATE; k++) { any_unloaded |= w->created[k] && !w->loaded[k]; any_unlinked |= w->loaded[k] && !w->linked[k]; any_linked |= w->linked[k]; }
  if (op < NCREATE) { if (w->created[op]) return 0; }
  else if (op == O_LOAD) { if (!any_unloaded) return 0; }
  else if (op >= O_LINK_INTERP && op <= O_LINK_LAZYBB) { if (!any_unlinked) return 0; int want = op == O_LINK_INTERP ? 1 : 2; if (w->iface && w->iface != want) return 0; /* one call interface per context */ }
  else if (op == O_RUN) { if (!any_linked) return 0; }
  else if (op == O_GEN) { if (!any_linked || w->iface != 2) return 0; }
  else if (op == O_OUTPUT || op == O_WRITE) { int any = 0; for (int k = 0; k < NCREATE; k++) any |= w->created[k]; if (!any) return 0; }
  err_armed = 1; in_api++;
  if (setjmp (err_jb) != 0) { in_api = 0; in_cb = 0; err_armed = 0; if (check) failh ("mir-error", "error-free history raised: %s", errmsg); w->dead = 1; return 1; }
  switch (op) {
  case C_API: { MIR_type_t rt = MIR_T_I64; MIR_new_module (ctx, "ma"); MIR_item_t f = MIR_new_func (ctx, "fa", 1, &rt, 1, MIR_T_I64, "x"); MIR_reg_t x = MIR_reg (ctx, "x", f->u.func), r = MIR_new_func_reg (ctx, f->u.func, MIR_T_I64, "r");
      MIR_append_insn (ctx, f, MIR_new_insn (ctx, MIR_ADD, MIR_new_reg_op (ctx, r), MIR_new_reg_op (ctx, x), MIR_new_int_op (ctx, 1)));
      MIR_append_insn (ctx, f, MIR_new_ret_insn (ctx, 1, MIR_new_reg_op (ctx, r))); MIR_finish_func (ctx); MIR_finish_module (ctx); w->mod[C_API] = last_module (w); break; }
  case C_SCAN: MIR_scan_string (ctx, "ms: module\nsd: i64 5, 6\nstr: string \"hello\"\nfs: func i64, i64:x\n local i64:r, i64:p\n alloca p, 16\n mov i64:(p), x\n mul r, i64:(p), 3\n ret r\nendfunc\n"
                                      /* a loop whose accumulator has a long name and several definitions: SSA renaming at -O2 grows name buffers through VARR_PUSH_ARR */
                                      "fl: func i64, i64:n\n local i64:accumulator_with_a_long_name, i64:second_long_register_name_i\n mov accumulator_with_a_long_name, 0\n mov second_long_register_name_i, 0\nL1:\n"
                                      " add accumulator_with_a_long_name, accumulator_with_a_long_name, second_long_register_name_i\n add second_long_register_name_i, second_long_register_name_i, 1\n"
                                      " blt L1, second_long_register_name_i, n\n ret accumulator_with_a_long_name\nendfunc\nendmodule\n"); w->mod[C_SCAN] = last_module (w); break;
  case C_BIN: bin_pos = 0; MIR_read_with_func (ctx, bin_rd); w->mod[C_BIN] = last_module (w); break;
  case C_C2M: { if (!w->c2m_init) { c2mir_init (ctx); w->c2m_init = 1; } struct c2mir_options o; memset (&o, 0, sizeof o); o.message_file = stderr; cpos = 0;
      if (!c2mir_compile (ctx, &o, cgetc, NULL, "fc.c", NULL)) { failh ("harness", "c2mir_compile failed"); } w->mod[C_C2M] = last_module (w); break; }
  case O_LOAD: for (int k = 0; k < NCREATE; k++) if (w->created[k] && !w->loaded[k]) { MIR_load_module (ctx, w->mod[k]); w->loaded[k] = 1; } break;
  case O_LINK_INTERP: MIR_load_external (ctx, "memset", memset); MIR_load_external (ctx, "memcpy", memcpy); MIR_link (ctx, MIR_set_interp_interface, NULL); w->iface = 1; break;
  case O_LINK_GEN: case O_LINK_LAZY: case O_LINK_LAZYBB:
    if (!w->gen_init) { MIR_gen_init (ctx); w->gen_init = 1; MIR_gen_set_optimize_level (ctx, w->level); }
    MIR_load_external (ctx, "memset", memset); MIR_load_external (ctx, "memcpy", memcpy);
    MIR_link (ctx, op == O_LINK_GEN ? MIR_set_gen_interface : op == O_LINK_LAZY ? MIR_set_lazy_gen_interface : MIR_set_lazy_bb_gen_interface, NULL); w->iface = 2; break;
  case O_RUN: for (int k = 0; k < NCREATE; k++) if (w->linked[k]) { MIR_item_t f = find_func (w, k); int64_t r;
        if (w->iface == 1) { MIR_val_t res, a; a.i = 5; MIR_interp_arr (ctx, f, &res, 1, &a); r = res.i; } else r = ((int64_t (*) (int64_t)) f->addr) (5);
        int64_t want = k == C_API ? 6 : k == C_SCAN ? 15 : k == C_BIN ? 12 : 119; if (check && r != want) failh ("wrong-result", "%s(5) returned %lld, expected %lld", FNAME[k], (long long) r, (long long) want); }
    break;
  case O_GEN: w->level = (w->level + 1) % 4; MIR_gen_set_optimize_level (ctx, w->level); for (int k = 0; k < NCREATE; k++) if (w->linked[k]) MIR_gen (ctx, find_func (w, k)); break;
  case O_OUTPUT: { char *b = NULL; size_t l; in_cb++; FILE *f = open_memstream (&b, &l); in_cb--; MIR_output (ctx, f); in_cb++; fclose (f); free (b); in_cb--; break; }
  case O_WRITE: MIR_write_with_func (ctx, null_wr); break;
  }
  in_api--; err_armed = 0;
  if (op < NCREATE) w->created[op] = 1;
  if (op >= O_LINK_INTERP && op <= O_LINK_LAZYBB) for (int k = 0; k < NCREATE; k++) if (w->loaded[k]) w->linked[k] = 1;
  return 1;
}
static uint64_t w_canon (void *p) {
  world *w = p; uint64_t h = 41; h = vp_hash_u64 (h, w->dead); for (int k = 0; k < NCREATE; k++) h = vp_hash_u64 (h, w->created[k] | w->loaded[k] << 1 | w->linked[k] << 2);
  h = vp_hash_u64 (h, w->iface); h = vp_hash_u64 (h, w->gen_init | w->c2m_init << 1); h = vp_hash_u64 (h, w->level);
  /* real allocator state classes: number of live code regions */
  h = vp_hash_u64 (h, w->chk.live_maps);
  return h;
}
static int depth; static int lazy_variant;
void drv_init (int thorough) {
  depth = thorough ? 10 : 8;
  /* the binary image read by create(read): written once with the default allocators */
  MIR_context_t c = MIR_init (); MIR_scan_string (c, "mb: module\nfb: func i64, i64:x\n local i64:r\n add r, x, 7\n ret r\nendfunc\nendmodule\n"); MIR_write_with_func (c, bin_wr); MIR_finish (c);
}
uint64_t drv_ncases (void) { return 2; }
void drv_describe (uint64_t idx, char *buf, size_t n) {
  if (idx == 0) snprintf (buf, n, "C17 BFS over legal API histories with checking allocators, depth %d", depth);
  else snprintf (buf, n, "C17 code patch sweep: every (offset, length) of _MIR_change_code / _MIR_update_code around a page boundary and at the ends of a published region");
}
/* every patch of 1..16 bytes at every offset from 24 bytes before to 24 bytes after a page boundary inside a published region (and at both ends of it):
   the checking code allocator keeps pages read+exec outside the windows the library asks for, so a window that is too short faults */
static void patch_sweep (void) {
  world *w = w_fresh (NULL); static uint8_t code[3 * 4096]; memset (code, 0x90, sizeof code); uint64_t n = 0;
  err_armed = 1; in_api++;
  if (setjmp (err_jb) == 0) {
    uint8_t *base = _MIR_publish_code (w->ctx, code, sizeof code), *pg = (uint8_t *) (((uintptr_t) base + 4095) & ~(uintptr_t) 4095);
    if (pg - base < 32) pg += 4096;
    for (int d = -24; d <= 24; d++) for (int len = 1; len <= 16; len++) {
      uint8_t pat[16]; for (int k = 0; k < len; k++) pat[k] = (uint8_t) (d * 7 + len * 3 + k);
      _MIR_change_code (w->ctx, pg + d, pat, len); n++;
      if (memcmp (pg + d, pat, len) != 0) failh ("patch-not-written", "_MIR_change_code(page%+d, %d bytes) did not store the bytes", d, len);
    }
    for (int d = -24; d <= 24; d++) { MIR_code_reloc_t rl[2]; rl[0].offset = pg + d - base; rl[0].value = (void *) (uintptr_t) (0x1122334455667788ull + d); rl[1].offset = pg + d + 4096 - 8 - base; rl[1].value = (void *) (uintptr_t) (0x99aabbccddeeff00ull + d);
      _MIR_update_code_arr (w->ctx, base, 2, rl); n++;
      if (memcmp (pg + d, &rl[0].value, 8) != 0 || memcmp (pg + d + 4096 - 8, &rl[1].value, 8) != 0) failh ("patch-not-written", "_MIR_update_code_arr at page%+d did not store the values", d); }
    for (int len = 1; len <= 16; len++) { uint8_t pat[16]; memset (pat, 0xC3, sizeof pat); _MIR_change_code (w->ctx, base, pat, len); _MIR_change_code (w->ctx, base + sizeof code - len, pat, len); n += 2; }
  } else failh ("mir-error", "code patching raised: %s", errmsg);
  in_api--; err_armed = 0;
  w_destroy (w); vp_count ("patches", n); vp_nontrivial ();
}
void drv_case (uint64_t idx) {
  if (idx == 1) { patch_sweep (); return; }
  bfs_model m = {NOPS, w_fresh, w_destroy, w_apply, w_canon, w_opname, NULL};
  bfs_result r = bfs_run (&m, depth, NULL, 0);
  vp_count ("states", r.states); vp_count ("transitions", r.transitions); vp_max ("depth", r.max_depth);
  vp_sample ("e.g. create(c2mir);create(scan);load;link(lazy-bb);run;gen;write + gen_finish;c2mir_finish;finish -- %llu states, %llu transitions", (unsigned long long) r.states, (unsigned long long) r.transitions);
  vp_nontrivial ();
}
