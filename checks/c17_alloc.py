"""C17 - all memory through the user's allocators, released at finish; code written only inside write windows."""
from core import build, runner
SRCS = ["checks/c17_alloc.c", "core/vp.c"]
WRAP = ["-Wl,--wrap=malloc,--wrap=calloc,--wrap=realloc,--wrap=free"]

def run(tier):
    rep = runner.Report("C17", tier, "model_checking")
    tot = {}; exh = True; samples = []
    for variant in (("prod", "asan") if tier == "thorough" else ("prod",)):
        exe = build.link_driver("c17", variant, SRCS, tus=("mir", "mir-gen", "c2mir"), ldflags=WRAP if variant == "prod" else [])
        res = runner.run_driver(exe, tier, "C17", nshards=2, case_timeout=3000, deadline=3300)
        rep.add_driver_result(res, "build=" + variant)
        for k, v in res["stats"].items(): tot[k] = tot.get(k, 0) + v if not k.startswith("max:") else max(tot.get(k, 0), v)
        exh = exh and res["exhaustive"]; samples = samples or res["samples"]
    rep.coverage = dict(states=tot.get("states", 0), transitions=tot.get("transitions", 0), traces_validated_against_impl=tot.get("transitions", 0), max_depth=tot.get("max:depth", 0),
                        samples=samples, exhaustive=exh, code_patches_swept=tot.get("patches", 0),
                        explanation="BFS over all legal histories up to the depth of: create a module by API / MIR_scan_string / MIR_read / c2mir_compile, load, link with interp / gen / lazy / lazy-bb interface, run, MIR_gen at changing levels, MIR_output, MIR_write; every history is closed by gen_finish, c2mir_finish, MIR_finish. "
                                    "The context uses a checking MIR_alloc (ledger with sizes: realloc must quote the true old size, no unknown/double free, quarantined blocks verified untouched, nothing live after finish) and a checking MIR_code_alloc (pages mapped read+exec, writable only between mem_protect(WRITE_EXEC) and mem_protect(READ_EXEC); a store outside a window faults); "
                                    "library objects are linked with --wrap so that a direct libc malloc/calloc/realloc/free from library code is reported")
    rep.coverage["explanation"] += ("; plus a sweep of the code patching entry points: _MIR_change_code for every length 1..16 at every offset within 24 bytes of a page boundary inside a published region and at both ends of it, "
                                   "and _MIR_update_code_arr with relocations on both sides of page boundaries, under the same write-window allocator")
    rep.assumptions = ["libc-internal allocations (stdio buffers etc.) are not the library's blocks and are not judged", "one call interface per context (interp or generator family) in the legality automaton"]
    return rep.finish()
