"""C01 - generated code (-O0..-O3) behaves like the interpreter, over complete program families."""
from core import build, runner

SRCS = ["checks/c01_gen_vs_interp.c", "core/vp.c", "core/mirh.c", "core/refinterp.c"]

def coverage(res, what):
    st = res["stats"]
    return dict(
        evaluations=st.get("evaluations", 0), distinct_nontrivial=res["nontrivial"],
        rule="case = one complete program of a family (index <-> program bijection, see checks/progfam.h); every program is run on its whole input grid by " + what +
             "; evaluations = (program,input,engine) executions compared; non-trivial = program with at least one input on which it is well defined",
        programs=res["done"], total_programs=res["ncases"], distinct_observed_behaviours=len(res["outcomes"]),
        programs_per_family={k[9:]: v for k, v in st.items() if k.startswith("programs:")},
        unspecified_skipped=st.get("unspecified_skipped", 0), programs_undefined_on_every_input=st.get("programs_undefined_on_every_input", 0),
        samples=res["samples"], exhaustive=res["exhaustive"])

def run(tier):
    rep = runner.Report("C01", tier, "exploration")
    exe = build.link_driver("c01", "prod", SRCS, tus=("mir", "mir-gen"))
    res = runner.run_driver(exe, tier, "C01", case_timeout=8, deadline=3300 if tier == "thorough" else 900)
    rep.add_driver_result(res)
    rep.coverage = coverage(res, "MIR_interp and by MIR_gen code at -O0,-O1,-O2,-O3 (fresh context each), results + buffer bytes + external-call log compared")
    rep.coverage["interp_vs_refinterp_disagreements_booked_under_C04"] = res["stats"].get("interp_vs_ref_diffs", 0)
    rep.assumptions = ["refinterp is used only as a filter: (program,input) pairs on which it meets behaviour MIR.md leaves unspecified are skipped; it also says which results are 32-bit (upper half not compared)",
                       "programs are bounded by the family definitions; interactions between families are not covered"]
    return rep.finish()
