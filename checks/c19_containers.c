/* C19 - container headers against trivially correct reference models; explicit-state BFS with the
   full internal representation as canonical state (DESIGN.md §3 C19). */
#include "vp.h"
#include "bfs.h"
#include <stdarg.h>
#include "chkalloc.h"
#include "mir-varr.h"
#include "mir-bitmap.h"
#include "mir-htab.h"
#include "mir-dlist.h"

static chk_state CHK; static struct MIR_alloc ALLOC;
static void failh (const char *kind, const char *fmt, ...) {
  char hist[1500], msg[1024]; va_list ap;
  bfs_history_text (hist, sizeof hist);
  va_start (ap, fmt); vsnprintf (msg, sizeof msg, fmt, ap); va_end (ap);
  vp_fail (kind, "history=[%s] %s", hist, msg);
}
void chk_error (const char *kind, const char *fmt, ...) {
  char msg[512]; va_list ap; va_start (ap, fmt); vsnprintf (msg, sizeof msg, fmt, ap); va_end (ap);
  failh (kind, "%s", msg);
}

/* =========================================================== bitmap ======================== */
#define NBM 3
#define RW 4 /* reference words: bits < 256 */
typedef struct { bitmap_t bm[NBM]; uint64_t ref[NBM][RW]; } bm_world;
static const int BITS[] = {0, 1, 62, 63, 64, 65, 127, 128, 129};
#define NBITS 9
static const int RSTART[] = {0, 62, 64}, RLEN[] = {1, 2, 64, 66};
enum { B_SET, B_CLR, B_RSET, B_RCLR, B_COPY, B_AND, B_IOR, B_ANDC, B_IORAND, B_IORANDC, B_CLEAR, B_SLACK, B_NK };
typedef struct { int kind, a, b, c, d; } bm_op;
static bm_op BMOPS[1024]; static int n_bmops;
static void bm_build_ops (void) {
  if (n_bmops) return;
  for (int i = 0; i < NBM; i++) for (int b = 0; b < NBITS; b++) BMOPS[n_bmops++] = (bm_op){B_SET, i, BITS[b]};
  for (int i = 0; i < NBM; i++) for (int b = 0; b < NBITS; b++) BMOPS[n_bmops++] = (bm_op){B_CLR, i, BITS[b]};
  for (int k = B_RSET; k <= B_RCLR; k++) for (int i = 0; i < NBM; i++) for (int s = 0; s < 3; s++) for (int l = 0; l < 4; l++) BMOPS[n_bmops++] = (bm_op){k, i, RSTART[s], RLEN[l]};
  for (int i = 0; i < NBM; i++) for (int j = 0; j < NBM; j++) if (i != j) BMOPS[n_bmops++] = (bm_op){B_COPY, i, j};
  for (int k = B_AND; k <= B_ANDC; k++) for (int i = 0; i < NBM; i++) for (int j = 0; j < NBM; j++) for (int l = 0; l < NBM; l++) BMOPS[n_bmops++] = (bm_op){k, i, j, l};
  for (int k = B_IORAND; k <= B_IORANDC; k++) for (int i = 0; i < NBM; i++) for (int j = 0; j < NBM; j++) for (int l = 0; l < NBM; l++) for (int m = 0; m < NBM; m++) BMOPS[n_bmops++] = (bm_op){k, i, j, l, m};
  for (int i = 0; i < NBM; i++) BMOPS[n_bmops++] = (bm_op){B_CLEAR, i};
  /* seed helper: leave a slack (all-zero) trailing word behind: set bit 190 then clear it */
  for (int i = 0; i < NBM; i++) BMOPS[n_bmops++] = (bm_op){B_SLACK, i};
}
static void bm_opname (int op, char *buf, size_t n) {
  static const char *nm[] = {"set", "clr", "rset", "rclr", "copy", "and", "ior", "and_compl", "ior_and", "ior_and_compl", "clear", "slack"};
  bm_op *o = &BMOPS[op];
  switch (o->kind) {
  case B_SET: case B_CLR: snprintf (buf, n, "%s(b%d,%d)", nm[o->kind], o->a, o->b); break;
  case B_RSET: case B_RCLR: snprintf (buf, n, "%s(b%d,%d,%d)", nm[o->kind], o->a, o->b, o->c); break;
  case B_COPY: snprintf (buf, n, "copy(b%d,b%d)", o->a, o->b); break;
  case B_AND: case B_IOR: case B_ANDC: snprintf (buf, n, "%s(b%d,b%d,b%d)", nm[o->kind], o->a, o->b, o->c); break;
  case B_IORAND: case B_IORANDC: snprintf (buf, n, "%s(b%d,b%d,b%d,b%d)", nm[o->kind], o->a, o->b, o->c, o->d); break;
  default: snprintf (buf, n, "%s(b%d)", nm[o->kind], o->a);
  }
}
static void *bm_fresh (void *cfg) {
  bm_world *w = calloc (1, sizeof *w);
  for (int i = 0; i < NBM; i++) w->bm[i] = bitmap_create2 (&ALLOC, 1); /* capacity 1 word: growth path is exercised */
  return w;
}
static void bm_destroy (void *p) { bm_world *w = p; for (int i = 0; i < NBM; i++) bitmap_destroy (w->bm[i]); free (w); }
static int ref_eq (const uint64_t *a, const uint64_t *b) { return memcmp (a, b, RW * 8) == 0; }
static void bm_check_all (bm_world *w) {
  for (int i = 0; i < NBM; i++) {
    size_t len = VARR_LENGTH (bitmap_el_t, w->bm[i]); bitmap_el_t *a = VARR_ADDR (bitmap_el_t, w->bm[i]);
    for (int k = 0; k < RW; k++) {
      uint64_t v = (size_t) k < len ? a[k] : 0;
      if (v != w->ref[i][k]) { failh ("bitmap-contents", "b%d word %d is %#llx, reference set has %#llx", i, k, (unsigned long long) v, (unsigned long long) w->ref[i][k]); return; }
    }
    if (len > RW) failh ("bitmap-contents", "b%d has %zu words", i, len);
    /* queries */
    size_t cnt = 0, mn = 0, mx = 0; int first = 1;
    for (int b = 0; b < RW * 64; b++) if (w->ref[i][b / 64] >> (b % 64) & 1) { cnt++; if (first) { mn = b; first = 0; } mx = b; }
    if (bitmap_bit_count (w->bm[i]) != cnt) failh ("bitmap-query", "bit_count(b%d)=%zu expected %zu", i, bitmap_bit_count (w->bm[i]), cnt);
    if (bitmap_empty_p (w->bm[i]) != (cnt == 0)) failh ("bitmap-query", "empty_p(b%d) wrong", i);
    if (bitmap_bit_min (w->bm[i]) != mn) failh ("bitmap-query", "bit_min(b%d)=%zu expected %zu", i, bitmap_bit_min (w->bm[i]), mn);
    if (bitmap_bit_max (w->bm[i]) != mx) failh ("bitmap-query", "bit_max(b%d)=%zu expected %zu", i, bitmap_bit_max (w->bm[i]), mx);
    for (int b = 0; b < NBITS; b++) if (bitmap_bit_p (w->bm[i], BITS[b]) != (int) (w->ref[i][BITS[b] / 64] >> (BITS[b] % 64) & 1)) failh ("bitmap-query", "bit_p(b%d,%d) wrong", i, BITS[b]);
    if (bitmap_bit_p (w->bm[i], 100000)) failh ("bitmap-query", "bit_p beyond the end is set");
    bitmap_iterator_t it; size_t nb, prev = 0, seen = 0; int ok = 1;
    FOREACH_BITMAP_BIT (it, w->bm[i], nb) {
      if (nb >= RW * 64 || !(w->ref[i][nb / 64] >> (nb % 64) & 1)) { ok = 0; break; }
      if (seen && nb <= prev) { ok = 0; break; }
      prev = nb; if (++seen > cnt) { ok = 0; break; }
    }
    if (!ok || seen != cnt) failh ("bitmap-iterator", "iterator over b%d visited %zu members (last %zu), set has %zu", i, seen, prev, cnt);
    for (int j = 0; j < NBM; j++) {
      int eq = ref_eq (w->ref[i], w->ref[j]), is = 0;
      for (int k = 0; k < RW; k++) if (w->ref[i][k] & w->ref[j][k]) is = 1;
      if (bitmap_equal_p (w->bm[i], w->bm[j]) != eq) failh ("bitmap-query", "equal_p(b%d,b%d)=%d expected %d", i, j, !eq, eq);
      if (bitmap_intersect_p (w->bm[i], w->bm[j]) != is) failh ("bitmap-query", "intersect_p(b%d,b%d)=%d expected %d", i, j, !is, is);
    }
  }
}
static int bm_apply (void *p, int op, int step, int check) {
  bm_world *w = p; bm_op *o = &BMOPS[op]; uint64_t before[RW], res[RW]; int flag = -1, d = o->a;
  memcpy (before, w->ref[d], sizeof before); memcpy (res, before, sizeof res);
  switch (o->kind) {
  case B_SET: res[o->b / 64] |= 1ull << (o->b % 64); flag = bitmap_set_bit_p (w->bm[d], o->b); break;
  case B_CLR: res[o->b / 64] &= ~(1ull << (o->b % 64)); flag = bitmap_clear_bit_p (w->bm[d], o->b); break;
  case B_RSET: case B_RCLR:
    for (int b = o->b; b < o->b + o->c; b++) { if (o->kind == B_RSET) res[b / 64] |= 1ull << (b % 64); else res[b / 64] &= ~(1ull << (b % 64)); }
    flag = o->kind == B_RSET ? bitmap_set_bit_range_p (w->bm[d], o->b, o->c) : bitmap_clear_bit_range_p (w->bm[d], o->b, o->c);
    break;
  case B_COPY: memcpy (res, w->ref[o->b], sizeof res); bitmap_copy (w->bm[d], w->bm[o->b]); break;
  case B_AND: for (int k = 0; k < RW; k++) res[k] = w->ref[o->b][k] & w->ref[o->c][k]; flag = bitmap_and (w->bm[d], w->bm[o->b], w->bm[o->c]); break;
  case B_IOR: for (int k = 0; k < RW; k++) res[k] = w->ref[o->b][k] | w->ref[o->c][k]; flag = bitmap_ior (w->bm[d], w->bm[o->b], w->bm[o->c]); break;
  case B_ANDC: for (int k = 0; k < RW; k++) res[k] = w->ref[o->b][k] & ~w->ref[o->c][k]; flag = bitmap_and_compl (w->bm[d], w->bm[o->b], w->bm[o->c]); break;
  case B_IORAND: for (int k = 0; k < RW; k++) res[k] = w->ref[o->b][k] | (w->ref[o->c][k] & w->ref[o->d][k]); flag = bitmap_ior_and (w->bm[d], w->bm[o->b], w->bm[o->c], w->bm[o->d]); break;
  case B_IORANDC: for (int k = 0; k < RW; k++) res[k] = w->ref[o->b][k] | (w->ref[o->c][k] & ~w->ref[o->d][k]); flag = bitmap_ior_and_compl (w->bm[d], w->bm[o->b], w->bm[o->c], w->bm[o->d]); break;
  case B_CLEAR: memset (res, 0, sizeof res); bitmap_clear (w->bm[d]); break;
  case B_SLACK: if (res[2] >> 62 & 1) return 0; bitmap_set_bit_p (w->bm[d], 190); bitmap_clear_bit_p (w->bm[d], 190); break;
  }
  memcpy (w->ref[d], res, sizeof res);
  if (check) {
    if (flag >= 0 && (flag != 0) != !ref_eq (before, res))
      failh ("bitmap-change-flag", "returned changed=%d but destination b%d %s (before %#llx:%#llx:%#llx after %#llx:%#llx:%#llx)", flag, d, ref_eq (before, res) ? "did not change" : "changed",
             (unsigned long long) before[0], (unsigned long long) before[1], (unsigned long long) before[2], (unsigned long long) res[0], (unsigned long long) res[1], (unsigned long long) res[2]);
    bm_check_all (w);
  }
  return 1;
}
static uint64_t bm_canon (void *p) {
  bm_world *w = p; uint64_t h = 7;
  for (int i = 0; i < NBM; i++) { size_t len = VARR_LENGTH (bitmap_el_t, w->bm[i]); h = vp_hash_u64 (h, len); h = vp_hash_bytes (h, VARR_ADDR (bitmap_el_t, w->bm[i]), len * 8); }
  return h;
}

/* =========================================================== HTAB ========================== */
typedef uint32_t hel_t; /* key in low 8 bits, serial above */
DEF_HTAB (hel_t);
typedef struct { int nkeys, mode; } ht_cfg;
typedef struct { HTAB (hel_t) * ht; ht_cfg cfg; int present[8]; hel_t val[8]; hel_t freed[64]; int nfreed; } ht_world;
static htab_hash_t ht_hash (hel_t el, void *arg) {
  ht_world *w = arg; unsigned k = el & 0xff;
  switch (w->cfg.mode) {
  case 0: return 5;                       /* all keys collide */
  case 1: return k == 0 ? 0 : k == 1 ? 1 : 4 * k; /* key 0 hashes to HTAB_DELETED_HASH (remapped to 1) and then collides with key 1 */
  case 2: return k + 1;                   /* distinct */
  default: return (k & 1) | k << 11;      /* equal low bits, different high bits: probe sequence uses hash >> 11 */
  }
}
static int ht_eq (hel_t a, hel_t b, void *arg) { return (a & 0xff) == (b & 0xff); }
static void ht_free (hel_t el, void *arg) { ht_world *w = arg; if (w->nfreed < 64) w->freed[w->nfreed++] = el; }
static void *ht_fresh (void *cfg) {
  ht_world *w = calloc (1, sizeof *w); w->cfg = *(ht_cfg *) cfg;
  HTAB_CREATE_WITH_FREE_FUNC (hel_t, w->ht, &ALLOC, 2, ht_hash, ht_eq, ht_free, w);
  return w;
}
static void ht_destroy (void *p) {
  ht_world *w = p; int live = 0;
  for (int k = 0; k < w->cfg.nkeys; k++) live += w->present[k];
  w->nfreed = 0; HTAB_DESTROY (hel_t, w->ht);
  if (w->nfreed != live) { bfs_cur_op = -1; failh ("htab-free", "destroy called the free function %d times for %d live elements", w->nfreed, live); }
  free (w);
}
static void ht_opname (int op, char *buf, size_t n) {
  static const char *nm[] = {"find", "insert", "replace", "delete"};
  if (op >= 32) snprintf (buf, n, "clear"); else snprintf (buf, n, "%s(%d)", nm[op & 3], op >> 2);
}
static void ht_foreach_cb (hel_t el, void *arg) { int *cnt = arg; cnt[el & 0xff] += 1; cnt[8 + (el & 0xff)] = el; }
static int ht_apply (void *p, int op, int step, int check) {
  ht_world *w = p; ht_cfg *c = &w->cfg;
  int act = op & 3, key = op >> 2; hel_t el = key | (step + 1) << 8, res = 0xffffffff; int r;
  if (op >= 32) { if (op != 32) return 0; } else if (key >= c->nkeys) return 0;
  w->nfreed = 0;
  if (op == 32) {
    int live = 0; for (int k = 0; k < c->nkeys; k++) live += w->present[k];
    HTAB_CLEAR (hel_t, w->ht);
    if (check) {
      if (w->nfreed != live) failh ("htab-free", "clear freed %d elements, %d were live", w->nfreed, live);
      for (int i = 0; i < w->nfreed; i++) { int k = w->freed[i] & 0xff; if (k >= c->nkeys || !w->present[k] || w->val[k] != w->freed[i]) failh ("htab-free", "clear freed %#x which is not a live element", w->freed[i]); else w->present[k] = 2; }
    }
    for (int k = 0; k < c->nkeys; k++) w->present[k] = 0;
  } else {
    static const enum htab_action A[] = {HTAB_FIND, HTAB_INSERT, HTAB_REPLACE, HTAB_DELETE};
    int was = w->present[key]; hel_t old = w->val[key];
    r = HTAB_DO (hel_t, w->ht, el, A[act], res);
    if (check && (r != 0) != was) failh ("htab-result", "returned %d but key %d was %s", r, key, was ? "present" : "absent");
    switch (act) {
    case 0: if (check && was && res != old) failh ("htab-result", "find returned element %#x, map holds %#x", res, old);
      if (check && w->nfreed) failh ("htab-free", "find freed an element"); break;
    case 1: if (!was) { w->present[key] = 1; w->val[key] = el; }
      if (check && res != w->val[key]) failh ("htab-result", "insert returned element %#x, map holds %#x", res, w->val[key]);
      if (check && w->nfreed) failh ("htab-free", "insert freed an element"); break;
    case 2: w->present[key] = 1; w->val[key] = el;
      if (check && res != el) failh ("htab-result", "replace returned element %#x, expected %#x", res, el);
      if (check && (w->nfreed != was || (was && w->freed[0] != old))) failh ("htab-free", "replace of %s key freed %d elements (first %#x, old %#x)", was ? "present" : "absent", w->nfreed, w->freed[0], old);
      break;
    case 3: w->present[key] = 0;
      if (check && (w->nfreed != was || (was && w->freed[0] != old))) failh ("htab-free", "delete of %s key freed %d elements (first %#x, old %#x)", was ? "present" : "absent", w->nfreed, w->freed[0], old);
      break;
    }
  }
  if (check) { /* whole-map agreement */
    int n = 0, cnt[16] = {0};
    for (int k = 0; k < c->nkeys; k++) n += w->present[k];
    if ((int) HTAB_ELS_NUM (hel_t, w->ht) != n) failh ("htab-contents", "els_num=%u, map has %d", HTAB_ELS_NUM (hel_t, w->ht), n);
    HTAB_FOREACH_ELEM (hel_t, w->ht, ht_foreach_cb, cnt);
    for (int k = 0; k < c->nkeys; k++) {
      if (cnt[k] != w->present[k] || (w->present[k] && (hel_t) cnt[8 + k] != w->val[k])) failh ("htab-contents", "foreach visits key %d %d times (element %#x); map: present=%d element %#x", k, cnt[k], cnt[8 + k], w->present[k], w->val[k]);
      hel_t q = k, got = 0xffffffff; w->nfreed = 0;
      int f = HTAB_DO (hel_t, w->ht, q, HTAB_FIND, got);
      if ((f != 0) != w->present[k] || (f && got != w->val[k])) failh ("htab-contents", "find(%d) -> %d,%#x; map: present=%d element %#x", k, f, got, w->present[k], w->val[k]);
    }
  }
  return 1;
}
static uint64_t ht_canon (void *p) {
  ht_world *w = p; HTAB (hel_t) *t = w->ht; uint64_t h = 11;
  size_t ne = VARR_LENGTH (htab_ind_t, t->entries); HTAB_EL (hel_t) *els = VARR_ADDR (HTAB_EL (hel_t), t->els);
  h = vp_hash_u64 (h, ne); h = vp_hash_bytes (h, VARR_ADDR (htab_ind_t, t->entries), ne * sizeof (htab_ind_t));
  h = vp_hash_u64 (h, t->els_num); h = vp_hash_u64 (h, t->els_start); h = vp_hash_u64 (h, t->els_bound);
  for (unsigned i = 0; i < t->els_bound; i++) { /* serials replaced by rank among live serials: table code never inspects them */
    h = vp_hash_u64 (h, els[i].hash);
    if (els[i].hash != HTAB_DELETED_HASH) {
      unsigned rank = 0; for (unsigned j = 0; j < t->els_bound; j++) if (els[j].hash != HTAB_DELETED_HASH && (els[j].el >> 8) < (els[i].el >> 8)) rank++;
      h = vp_hash_u64 (h, (els[i].el & 0xff) | rank << 8);
    }
  }
  return h;
}

/* =========================================================== VARR ========================== */
DEF_VARR (int);
typedef struct { int init_cap; } va_cfg;
#define VA_MAX 64
typedef struct { VARR (int) * v; int ref[VA_MAX], def[VA_MAX], len; } va_world;
enum { V_PUSH, V_POP, V_PUSHARR0, V_PUSHARR1, V_PUSHARR3, V_EXPAND1, V_EXPAND5, V_TAILOR0, V_TAILOR1, V_TAILOR3, V_TAILOR8, V_TRUNC0, V_TRUNC1, V_SET0, V_SETLAST, V_NOPS };
static void va_opname (int op, char *buf, size_t n) {
  static const char *nm[] = {"push", "pop", "push_arr0", "push_arr1", "push_arr3", "expand+1", "expand+5", "tailor0", "tailor1", "tailor3", "tailor8", "trunc0", "trunc-1", "set0", "setlast"};
  snprintf (buf, n, "%s", nm[op]);
}
static void *va_fresh (void *cfg) { va_world *w = calloc (1, sizeof *w); VARR_CREATE (int, w->v, &ALLOC, ((va_cfg *) cfg)->init_cap); return w; }
static void va_destroy (void *p) { va_world *w = p; VARR_DESTROY (int, w->v); free (w); }
static int va_apply (void *p, int op, int step, int check) {
  va_world *w = p; int val = (step + 1) * 16, arr[3] = {val + 1, val + 2, val + 3}, t;
  switch (op) {
  case V_PUSH: if (w->len >= VA_MAX - 4) return 0; VARR_PUSH (int, w->v, val); w->ref[w->len] = val; w->def[w->len++] = 1; break;
  case V_POP: if (!w->len || !w->def[w->len - 1]) return 0; t = VARR_POP (int, w->v); w->len--; if (check && t != w->ref[w->len]) failh ("varr-contents", "pop returned %d expected %d", t, w->ref[w->len]); break;
  case V_PUSHARR0: case V_PUSHARR1: case V_PUSHARR3: { int n = op == V_PUSHARR0 ? 0 : op == V_PUSHARR1 ? 1 : 3; if (w->len + n >= VA_MAX) return 0;
      VARR_PUSH_ARR (int, w->v, arr, n); for (int i = 0; i < n; i++) { w->ref[w->len] = arr[i]; w->def[w->len++] = 1; } break; }
  case V_EXPAND1: case V_EXPAND5: { size_t want = w->len + (op == V_EXPAND1 ? 1 : 5), cap = VARR_CAPACITY (int, w->v); int r = VARR_EXPAND (int, w->v, want);
      if (check && (r != 0) != (cap < want)) failh ("varr-contents", "expand returned %d with capacity %zu, wanted %zu", r, cap, want);
      if (check && VARR_CAPACITY (int, w->v) < want) failh ("varr-contents", "capacity %zu after expand to %zu", VARR_CAPACITY (int, w->v), want); break; }
  case V_TAILOR0: case V_TAILOR1: case V_TAILOR3: case V_TAILOR8: { int n = op == V_TAILOR0 ? 0 : op == V_TAILOR1 ? 1 : op == V_TAILOR3 ? 3 : 8;
      if (n == 0) return 0; /* realloc to size 0 is outside the allocator contract */
      VARR_TAILOR (int, w->v, n); for (int i = w->len; i < n; i++) w->def[i] = 0; w->len = n;
      if (check && VARR_CAPACITY (int, w->v) != (size_t) n) failh ("varr-contents", "capacity %zu after tailor %d", VARR_CAPACITY (int, w->v), n); break; }
  case V_TRUNC0: VARR_TRUNC (int, w->v, 0); w->len = 0; break;
  case V_TRUNC1: if (!w->len) return 0; VARR_TRUNC (int, w->v, w->len - 1); w->len--; break;
  case V_SET0: if (!w->len) return 0; VARR_SET (int, w->v, 0, val); w->ref[0] = val; w->def[0] = 1; break;
  case V_SETLAST: if (!w->len) return 0; VARR_SET (int, w->v, w->len - 1, val); w->ref[w->len - 1] = val; w->def[w->len - 1] = 1; break;
  }
  if (check) {
    if (VARR_LENGTH (int, w->v) != (size_t) w->len) failh ("varr-contents", "length %zu expected %d", VARR_LENGTH (int, w->v), w->len);
    if (VARR_CAPACITY (int, w->v) < (size_t) w->len) failh ("varr-contents", "capacity %zu < length %d", VARR_CAPACITY (int, w->v), w->len);
    for (int i = 0; i < w->len; i++) if (w->def[i] && VARR_GET (int, w->v, i) != w->ref[i]) { failh ("varr-contents", "element %d is %d expected %d", i, VARR_GET (int, w->v, i), w->ref[i]); break; }
    if (w->len && w->def[w->len - 1] && VARR_LAST (int, w->v) != w->ref[w->len - 1]) failh ("varr-contents", "last wrong");
    if (w->len && VARR_ADDR (int, w->v) + w->len - 1 != &VARR_ADDR (int, w->v)[w->len - 1]) failh ("varr-contents", "addr");
    int i, el, k = 0; VARR_FOREACH_ELEM (int, w->v, i, el) { if (w->def[i] && el != w->ref[i]) failh ("varr-contents", "foreach element %d", i); k++; }
    if (k != w->len) failh ("varr-contents", "foreach visited %d of %d", k, w->len);
  }
  return 1;
}
static uint64_t va_canon (void *p) {
  va_world *w = p; uint64_t h = 13; h = vp_hash_u64 (h, VARR_LENGTH (int, w->v)); h = vp_hash_u64 (h, VARR_CAPACITY (int, w->v));
  for (int i = 0; i < w->len; i++) { /* values are serials: canonical form keeps only their rank and defined-ness */
    int rank = 0; if (w->def[i]) for (int j = 0; j < w->len; j++) if (w->def[j] && w->ref[j] < w->ref[i]) rank++;
    h = vp_hash_u64 (h, w->def[i] ? rank + 1 : 0);
  }
  return h;
}

/* =========================================================== DLIST ========================= */
typedef struct dnode *dnode_t;
DEF_DLIST_LINK (dnode_t);
struct dnode { int id; DLIST_LINK (dnode_t) link; };
DEF_DLIST (dnode_t, link);
#define DN 5
typedef struct { DLIST (dnode_t) list; struct dnode node[DN]; int ref[DN], len, in[DN]; } dl_world;
/* ops: 0..DN-1 append(e) | DN..2DN-1 prepend(e) | 2DN.. insert_before(b,e) DN*DN | insert_after(b,e) DN*DN | remove(e) DN */
#define DL_NOPS (3 * DN + 2 * DN * DN)
static void dl_opname (int op, char *buf, size_t n) {
  if (op < DN) snprintf (buf, n, "append(e%d)", op);
  else if (op < 2 * DN) snprintf (buf, n, "prepend(e%d)", op - DN);
  else if (op < 2 * DN + DN * DN) snprintf (buf, n, "insert_before(e%d,e%d)", (op - 2 * DN) / DN, (op - 2 * DN) % DN);
  else if (op < 2 * DN + 2 * DN * DN) snprintf (buf, n, "insert_after(e%d,e%d)", (op - 2 * DN - DN * DN) / DN, (op - 2 * DN - DN * DN) % DN);
  else snprintf (buf, n, "remove(e%d)", op - 2 * DN - 2 * DN * DN);
}
static void *dl_fresh (void *cfg) { dl_world *w = calloc (1, sizeof *w); DLIST_INIT (dnode_t, w->list); for (int i = 0; i < DN; i++) w->node[i].id = i; return w; }
static void dl_destroy (void *p) { free (p); }
static int dl_pos (dl_world *w, int e) { for (int i = 0; i < w->len; i++) if (w->ref[i] == e) return i; return -1; }
static void dl_ins (dl_world *w, int pos, int e) { memmove (&w->ref[pos + 1], &w->ref[pos], (w->len - pos) * sizeof (int)); w->ref[pos] = e; w->len++; w->in[e] = 1; }
static int dl_apply (void *p, int op, int step, int check) {
  dl_world *w = p; int e, b;
  if (op < DN) { e = op; if (w->in[e]) return 0; DLIST_APPEND (dnode_t, w->list, &w->node[e]); dl_ins (w, w->len, e); }
  else if (op < 2 * DN) { e = op - DN; if (w->in[e]) return 0; DLIST_PREPEND (dnode_t, w->list, &w->node[e]); dl_ins (w, 0, e); }
  else if (op < 2 * DN + DN * DN) { b = (op - 2 * DN) / DN; e = (op - 2 * DN) % DN; if (!w->in[b] || w->in[e]) return 0; DLIST_INSERT_BEFORE (dnode_t, w->list, &w->node[b], &w->node[e]); dl_ins (w, dl_pos (w, b), e); }
  else if (op < 2 * DN + 2 * DN * DN) { b = (op - 2 * DN - DN * DN) / DN; e = (op - 2 * DN - DN * DN) % DN; if (!w->in[b] || w->in[e]) return 0; DLIST_INSERT_AFTER (dnode_t, w->list, &w->node[b], &w->node[e]); dl_ins (w, dl_pos (w, b) + 1, e); }
  else { e = op - 2 * DN - 2 * DN * DN; if (!w->in[e]) return 0; DLIST_REMOVE (dnode_t, w->list, &w->node[e]); int q = dl_pos (w, e); memmove (&w->ref[q], &w->ref[q + 1], (w->len - q - 1) * sizeof (int)); w->len--; w->in[e] = 0;
    if (check && (w->node[e].link.prev != NULL || w->node[e].link.next != NULL)) failh ("dlist-contents", "removed element keeps links"); }
  if (check) {
    if ((int) DLIST_LENGTH (dnode_t, w->list) != w->len) failh ("dlist-contents", "length %zu expected %d", DLIST_LENGTH (dnode_t, w->list), w->len);
    dnode_t n = DLIST_HEAD (dnode_t, w->list), prev = NULL; int i = 0;
    for (; n != NULL && i <= DN; prev = n, n = DLIST_NEXT (dnode_t, n), i++) {
      if (i >= w->len || n->id != w->ref[i]) { failh ("dlist-contents", "forward walk position %d holds e%d", i, n->id); break; }
      if (DLIST_PREV (dnode_t, n) != prev) { failh ("dlist-contents", "prev link of position %d wrong", i); break; }
    }
    if (i != w->len) failh ("dlist-contents", "forward walk saw %d elements expected %d", i, w->len);
    if (DLIST_TAIL (dnode_t, w->list) != prev) failh ("dlist-contents", "tail wrong");
    for (int k = -DN - 1; k <= DN; k++) {
      dnode_t g = DLIST_EL (dnode_t, w->list, k); int idx = k >= 0 ? k : w->len + k;
      int exp = (idx >= 0 && idx < w->len) ? w->ref[idx] : -1;
      if ((g ? g->id : -1) != exp) failh ("dlist-contents", "el(%d) is e%d expected e%d", k, g ? g->id : -1, exp);
    }
  }
  return 1;
}
static uint64_t dl_canon (void *p) {
  dl_world *w = p; uint64_t h = 17; int i = 0;
  for (dnode_t n = DLIST_HEAD (dnode_t, w->list); n != NULL && i <= DN; n = DLIST_NEXT (dnode_t, n), i++) h = vp_hash_u64 (h, n->id + 1);
  return h;
}

/* =========================================================== cases ========================= */
typedef struct { const char *name; int kind; int a, b, depth; } ccase;
static ccase CASES[128]; static int n_cases;
static ht_cfg HTCFG[16]; static va_cfg VACFG[4];
static void add_case (const char *name, int kind, int a, int b, int depth) { CASES[n_cases++] = (ccase){name, kind, a, b, depth}; }
void drv_init (int thorough) {
  ALLOC = chk_alloc_make (&CHK); bm_build_ops ();
  /* kind 0: bitmap BFS from empty; 1: bitmap seeds chunk a of 16; 2: htab; 3: varr; 4: dlist; 5..: long deterministic runs */
  add_case ("bitmap/bfs-from-empty", 0, 0, 0, thorough ? 3 : 2);
  for (int c = 0; c < 16; c++) add_case ("bitmap/seeds", 1, c, 0, thorough ? 2 : 1);
  for (int mode = 0; mode < 4; mode++) {
    HTCFG[mode] = (ht_cfg){3, mode}; add_case ("htab/3keys", 2, mode, 0, thorough ? 9 : 7);
    HTCFG[4 + mode] = (ht_cfg){5, mode}; add_case ("htab/5keys", 2, 4 + mode, 0, thorough ? 7 : 5);
  }
  VACFG[0].init_cap = 1; VACFG[1].init_cap = 2; VACFG[2].init_cap = 0;
  for (int i = 0; i < 3; i++) add_case ("varr", 3, i, 0, thorough ? 7 : 5);
  add_case ("dlist", 4, 0, 0, thorough ? 8 : 6);
  add_case ("htab/long-cycle", 5, 0, 0, 0);
  add_case ("bitmap/long-walk", 6, 0, 0, 0);
}
uint64_t drv_ncases (void) { return n_cases; }
void drv_describe (uint64_t idx, char *buf, size_t n) {
  ccase *c = &CASES[idx];
  snprintf (buf, n, "C19 %s cfg=%d depth=%d", c->name, c->a, c->depth);
}
static void long_htab (void) { /* deterministic boundary family: 10^5 insert/delete cycles with growth and tombstone reuse */
  for (int mode = 0; mode < 4; mode++) {
    ht_cfg cfg = {8, mode}; ht_world *w = ht_fresh (&cfg); bfs_hist h = {0}; bfs_cur_hist = &h; bfs_cur_op = -1; bfs_cur_model = NULL;
    uint32_t x = 12345;
    for (int step = 0; step < 100000; step++) {
      x = x * 1103515245u + 12345u; /* fixed LCG: a deterministic long history, not a sample of a distribution */
      int op = ((x >> 16) & 3) | ((x >> 20) % 8) << 2;
      if ((step & 0x3fff) == 0x3fff) op = 32;
      ht_apply (w, op, step & 0xffff, 1); vp_count ("transitions", 1);
    }
    ht_destroy (w);
  }
}
static void long_bitmap (void) {
  bm_world *w = bm_fresh (NULL); uint32_t x = 99; bfs_cur_model = NULL;
  for (int step = 0; step < 200000; step++) { x = x * 1103515245u + 12345u; int op = (x >> 12) % (n_bmops - NBM); bm_apply (w, op, step, 1); vp_count ("transitions", 1); }
  bm_destroy (w);
}
void drv_case (uint64_t idx) {
  ccase *c = &CASES[idx]; bfs_model m; bfs_result r = {0};
  static bfs_hist seeds[1024]; size_t ns = 0;
  vp_nontrivial ();
  switch (c->kind) {
  case 0: case 1:
    m = (bfs_model){n_bmops - NBM /* B_SLACK is a seed-only op */, bm_fresh, bm_destroy, bm_apply, bm_canon, bm_opname, NULL};
    if (c->kind == 1) { /* all triples of subsets of {1,64,128}, each bitmap tight or slack: 512*8 = 4096 seeds, 256 per chunk */
      int bitop[3]; for (int i = 0; i < n_bmops; i++) if (BMOPS[i].kind == B_SET && BMOPS[i].a == 0) { if (BMOPS[i].b == 1) bitop[0] = i; if (BMOPS[i].b == 64) bitop[1] = i; if (BMOPS[i].b == 128) bitop[2] = i; }
      for (int s = c->a * 256; s < (c->a + 1) * 256; s++) {
        bfs_hist h; memset (&h, 0, sizeof h);
        for (int b = 0; b < NBM; b++) {
          if (s >> (9 + b) & 1) h.op[h.len++] = n_bmops - NBM + b; /* slack first, so the zero word stays behind */
          for (int k = 0; k < 3; k++) if (s >> (3 * b + k) & 1) h.op[h.len++] = bitop[k] + b * NBITS;
        }
        seeds[ns++] = h;
      }
    }
    r = bfs_run (&m, c->depth, seeds, ns);
    break;
  case 2: m = (bfs_model){33, ht_fresh, ht_destroy, ht_apply, ht_canon, ht_opname, &HTCFG[c->a]}; r = bfs_run (&m, c->depth, NULL, 0); break;
  case 3: m = (bfs_model){V_NOPS, va_fresh, va_destroy, va_apply, va_canon, va_opname, &VACFG[c->a]}; r = bfs_run (&m, c->depth, NULL, 0); break;
  case 4: m = (bfs_model){DL_NOPS, dl_fresh, dl_destroy, dl_apply, dl_canon, dl_opname, NULL}; r = bfs_run (&m, c->depth, NULL, 0); break;
  case 5: long_htab (); break;
  case 6: long_bitmap (); break;
  }
  vp_count ("states", r.states); vp_count ("transitions", r.transitions); vp_max ("depth", r.max_depth);
  if (r.replay_divergences) vp_fail ("infra-replay-divergence", "canonical state differs between two replays of the same history");
  char key[40]; snprintf (key, sizeof key, "states:%s", c->name); vp_count (key, r.states);
  vp_sample ("%s cfg=%d depth=%d -> states=%llu transitions=%llu", c->name, c->a, c->depth, (unsigned long long) r.states, (unsigned long long) r.transitions);
  size_t leaks = chk_reset (&CHK, 1);
  (void) leaks;
}
