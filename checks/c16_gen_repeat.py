"""C16 - code generation leaves the MIR program intact and can be repeated (BFS over generation/use histories)."""
from core import build, runner
SRCS = ["checks/c16_gen_repeat.c", "core/vp.c", "core/mirh.c", "core/refinterp.c"]

def run(tier):
    rep = runner.Report("C16", tier, "model_checking")
    tot = {}; exh = True; samples = []
    for variant in (("prod", "asan") if tier == "thorough" else ("prod",)):
        exe = build.link_driver("c16", variant, SRCS, tus=("mir", "mir-gen"))
        res = runner.run_driver(exe, tier, "C16", case_timeout=600, deadline=3000)
        rep.add_driver_result(res, "build=" + variant)
        for k, v in res["stats"].items(): tot[k] = tot.get(k, 0) + v if not k.startswith("max:") else max(tot.get(k, 0), v)
        exh = exh and res["exhaustive"]; samples = samples or res["samples"]
    rep.coverage = dict(states=tot.get("states", 0), transitions=tot.get("transitions", 0), traces_validated_against_impl=tot.get("transitions", 0), executions=tot.get("executions", 0),
                        max_depth=tot.get("max:depth", 0), samples=samples, exhaustive=exh,
                        explanation="for 6 representative programs of each C01/C04 family x {interp interface, eager gen, lazy gen}: BFS over all histories up to the depth of gen(f), level(0), level(3), output(f), interp(f), call(f->addr), "
                                    "link of a later module calling f, link of a later module inlining f; after every transition: MIR_output_item(f) must equal its text after a link without generation, f->addr must be unchanged, a repeated MIR_gen must return the same address, "
                                    "and every execution (interpreter, generated code, later modules) must behave as refinterp says the program as written behaves")
    rep.assumptions = ["canonical state = (text unchanged, machine code present, interpreter data present, later modules linked, level); helper items added to the module by the generator are not compared"]
    return rep.finish()
