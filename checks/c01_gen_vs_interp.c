/* C01 (mode 0): generated code at -O0..-O3 vs the interpreter, over complete program families.
   C04 (mode 1, env VP_MODE=ref): interpreter and generated code vs refinterp executing the un-linked IR.
   DESIGN.md §3 C01 / C04. */
#include "vp.h"
#include "mirh.h"
#include "progfam.h"
#include <stdlib.h>

static int mode_ref; static uint64_t fam_first[NFAM + 1];
static int fam_lo = 0, fam_hi = NFAM; static int ord[NFAM], n_ord;
void drv_init (int thorough) {
  progfam_thorough = thorough;
  const char *m = getenv ("VP_MODE"); mode_ref = m && strcmp (m, "ref") == 0;
  const char *fs = getenv ("VP_FAMILIES"); /* optional "lo:hi" restriction, used by other checks */
  if (fs) sscanf (fs, "%d:%d", &fam_lo, &fam_hi);
  /* families are enumerated smallest first, so that a deadline (thorough tier) cuts only the largest ones */
  n_ord = 0; for (int i = fam_lo; i < fam_hi; i++) ord[n_ord++] = i;
  for (int i = 1; i < n_ord; i++) for (int j = i; j > 0 && FAMILIES[ord[j]].count (thorough) < FAMILIES[ord[j - 1]].count (thorough); j--) { int t = ord[j]; ord[j] = ord[j - 1]; ord[j - 1] = t; }
  fam_first[0] = 0;
  for (int i = 0; i < n_ord; i++) fam_first[i + 1] = fam_first[i] + FAMILIES[ord[i]].count (thorough);
}
uint64_t drv_ncases (void) { return fam_first[n_ord]; }
static const family *locate (uint64_t idx, uint64_t *local) {
  for (int i = 0; i < n_ord; i++) if (idx < fam_first[i + 1]) { *local = idx - fam_first[i]; return &FAMILIES[ord[i]]; }
  return NULL;
}
void drv_describe (uint64_t idx, char *buf, size_t n) {
  uint64_t l; const family *f = locate (idx, &l); f3_features = 0; f->render (l);
  /* the descriptor carries the function body so that a known-finding predicate can match on instructions */
  const char *body = strstr (PT, "f: func"); char flat[1500]; size_t k = 0;
  for (const char *p = body ? body : PT; *p && k + 2 < sizeof flat; p++) flat[k++] = *p == '\n' ? ';' : *p;
  flat[k] = 0;
  snprintf (buf, n, "%s family=%s idx=%llu features=%s prog={%s}", mode_ref ? "C04" : "C01", f->name, (unsigned long long) l, (f3_features & 1) ? "isolated-address-taken-block" : "none", flat);
}

typedef struct { int st; int low32; int64_t ret; uint64_t mem, log; int nlog; } obs;
#define MAXIN 128
static obs REF[MAXIN], BASE[MAXIN];
static uint8_t snap[2][MH_BUF], gsnap[MH_BUF];

static void set_input (pinput in, mh_args *a) {
  memset (a, 0, sizeof *a); mh_mem_reset (); mh_log_reset ();
  a->ni = 4; a->i[0] = in.a; a->i[1] = in.b; a->i[2] = (int64_t) (intptr_t) mh_buf[0];
  a->i[3] = in.qk < 0 ? (int64_t) (intptr_t) mh_buf[1] : (int64_t) (intptr_t) (mh_buf[0] + in.qk);
  a->nd = 2; a->d[0] = in.x; a->d[1] = in.y;
}
static uint64_t mem_obs (const family *f, uint64_t l) {
  memcpy (snap, mh_buf, sizeof snap); memcpy (gsnap, mh_gbuf, sizeof gsnap);
  if (f->mask) f->mask (l, snap[0]);
  uint64_t h = vp_hash_bytes (5, snap, sizeof snap); return vp_hash_bytes (h, gsnap, sizeof gsnap);
}
static void explain (char *buf, size_t n, const obs *want, const obs *got) {
  snprintf (buf, n, "ret %#llx vs %#llx%s; memory %s; external calls %s (%d vs %d)", (unsigned long long) got->ret, (unsigned long long) want->ret, want->low32 ? " (low 32 bits compared)" : "",
            got->mem == want->mem ? "equal" : "DIFFERENT", got->log == want->log ? "equal" : "DIFFERENT", got->nlog, want->nlog);
}
static int same (const obs *want, const obs *got) {
  int r = want->low32 ? (uint32_t) want->ret == (uint32_t) got->ret : want->ret == got->ret;
  return r && want->mem == got->mem && want->log == got->log;
}

void drv_case (uint64_t idx) {
  uint64_t l; const family *fam = locate (idx, &l); f3_features = 0; fam->render (l);
  int known_class = 0;
  if ((f3_features & 1) && mode_ref) { vp_count ("generator_nontermination_class_left_to_C01", 1); return; }
  if (f3_features & 1) { /* members of a class listed in KNOWN_FINDINGS.txt (generator never returns): each shard executes the first one
                            to confirm the finding still exists and skips the rest; if one of them completes, nothing is skipped any more */
    if (vp_get ("known_class_started") >= 1 && vp_get ("known_class_completed") == 0) { vp_count ("known_class_not_executed", 1); return; }
    vp_count ("known_class_started", 1); known_class = 1;
  }
  int nin = fam->ninputs (l); if (nin > MAXIN) nin = MAXIN;
  if (vp_verbose) { FILE *pf = fopen ("/tmp/vp_case.mir", "w"); if (pf) { fputs (PT, pf); fclose (pf); } }
  uint64_t compared = 0, skipped = 0, beh = 7; char msg[400];
  for (int e = 0; e <= E_GEN3; e++) {
    mh_ctx mc; mh_open (&mc);
    if (mh_scan (&mc, PT) != 0) { vp_fail ("harness-scan-error", "%s", mc.errmsg); mh_close (&mc); return; }
    MIR_item_t f = mh_find_func (&mc, "f");
    if (e == E_INTERP) {
      int ok = 0;
      for (int i = 0; i < nin; i++) {
        mh_args a; ri_ctx ri; ri_val res[2]; set_input (fam->input (l, i), &a);
        ri_init (&ri, mc.ctx, mh_exts, mh_n_exts, 20000); memset (res, 0, sizeof res);
        REF[i].st = mh_ref_call (&ri, f, &a, res); REF[i].low32 = res[0].taint; REF[i].ret = res[0].u.i; REF[i].mem = mem_obs (fam, l); REF[i].log = mh_log_hash (); REF[i].nlog = mh_log_n;
        if (REF[i].st == RI_UNSUPPORTED || REF[i].st == RI_BAD) { vp_fail ("harness-refinterp", "reference interpreter cannot run the program: %s", ri.why); ri_finish (&ri); mh_close (&mc); return; }
        if (REF[i].st == RI_OK) ok++; else if (vp_verbose) fprintf (stderr, "refinterp input %d: %s: %s\n", i, ri_status_name (REF[i].st), ri.why);
        ri_finish (&ri);
      }
      if (!ok) { vp_count ("programs_undefined_on_every_input", 1); mh_close (&mc); return; }
    }
    if (mh_link (&mc, (mh_engine) e) != 0) { vp_fail ("mir-error", "engine=%s: %s", mh_engine_name[e], mc.errmsg); mh_close (&mc); return; }
    for (int i = 0; i < nin; i++) {
      if (REF[i].st != RI_OK) { skipped++; continue; }
      mh_args a; MIR_val_t res[2]; obs o; pinput in = fam->input (l, i); set_input (in, &a); memset (res, 0, sizeof res);
      if (mh_call (&mc, f, &a, res) != 0) { vp_fail ("mir-error", "engine=%s: %s", mh_engine_name[e], mc.errmsg); mh_close (&mc); return; }
      o.st = 0; o.low32 = REF[i].low32; o.ret = res[0].i; o.mem = mem_obs (fam, l); o.log = mh_log_hash (); o.nlog = mh_log_n;
      compared++;
      if (e == E_INTERP) { BASE[i] = o; beh = vp_hash_u64 (beh, (uint64_t) (o.low32 ? (uint32_t) o.ret : o.ret)); beh = vp_hash_u64 (beh, o.mem); beh = vp_hash_u64 (beh, o.log); }
      const obs *want = mode_ref ? &REF[i] : &BASE[i];
      if ((mode_ref || e != E_INTERP) && !same (want, &o)) {
        explain (msg, sizeof msg, want, &o);
        vp_fail (mode_ref ? "differs-from-reference-semantics" : "gen-differs-from-interp", "engine=%s input=(a=%lld,b=%lld,qk=%d,x=%g,y=%g): %s", mh_engine_name[e], (long long) in.a, (long long) in.b, in.qk, in.x, in.y, msg);
        mh_close (&mc); goto out;
      }
      if (!mode_ref && e == E_INTERP && !same (&REF[i], &o)) vp_count ("interp_vs_ref_diffs", 1);
    }
    mh_close (&mc);
  }
out:
  if (known_class) vp_count ("known_class_completed", 1);
  vp_count ("evaluations", compared); vp_count ("unspecified_skipped", skipped); vp_outcome (beh);
  char key[40]; snprintf (key, sizeof key, "programs:%s", fam->name); vp_count (key, 1);
  if (compared) vp_nontrivial ();
  if (l == 0 || l % 50021 == 7) { char d[1600]; drv_describe (idx, d, sizeof d); vp_sample ("%s", d); }
}
