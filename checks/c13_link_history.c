/* C13 - imports bind to the most recently loaded export, for any load / load_external / link history.
   Explicit-state BFS: a state is the history that reaches it, replayed on a fresh context; every
   transition calls the real MIR_load_module / MIR_load_external / MIR_link; reference model =
   name -> latest definition map + pending list.  DESIGN.md §3 C13. */
#include "vp.h"
#include "bfs.h"
#include "mirh.h"
#include <string.h>
#include <stdlib.h>
#include <stdarg.h>

static const char *MODS =
  "a1: module\n export v\n v: func i64\n ret 1\n endfunc\n endmodule\n"
  "a2: module\n export v\n v: func i64\n ret 2\n endfunc\n endmodule\n"
  "d1: module\n export w\n w: i64 100\n endmodule\n"
  "d2: module\n export w\n w: i64 200\n endmodule\n"
  "b: module\n import v, w\n pv: proto i64\n export callb\n callb: func i64\n local i64:r, i64:p, i64:x\n call pv, v, r\n mov p, w\n mov x, i64:(p)\n mul r, r, 1000\n add r, r, x\n ret r\n endfunc\n endmodule\n"
  "c: module\n import v, w\n pv: proto i64\n export callc\n callc: func i64\n local i64:r, i64:p, i64:x\n call pv, v, r\n mov p, w\n mov x, i64:(p)\n mul r, r, 1000\n add r, r, x\n ret r\n endfunc\n endmodule\n"
  "e: module\n forward u\n export u\n import v\n pv: proto i64\n u: func i64\n local i64:r\n call pv, v, r\n add r, r, 50\n ret r\n endfunc\n endmodule\n"
  "g: module\n import u\n pv: proto i64\n export callg\n callg: func i64\n local i64:r\n call pv, u, r\n ret r\n endfunc\n endmodule\n";
enum { M_A1, M_A2, M_D1, M_D2, M_B, M_C, M_E, M_G, NMOD };
static const char *MNAME[] = {"a1", "a2", "d1", "d2", "b", "c", "e", "g"};
/* definitions: v: 1 = a1, 2 = a2, 11/12 = external functions, 7 = resolver ; w: 100 = d1, 200 = d2, 300 = external datum, 700 = resolver */
static int64_t ext_v1 (void) { return 11; } static int64_t ext_v2 (void) { return 12; } static int64_t res_v (void) { return 7; }
static int64_t ext_w_datum = 300, res_w_datum = 700;
enum { OP_LOAD0 = 0, OP_EXTV1 = NMOD, OP_EXTV2, OP_EXTW, OP_LINK, OP_LINKRES, OP_REDEF, NOPS };

typedef struct {
  mh_ctx mc; MIR_module_t mod[NMOD]; int dead;              /* real */
  int envv, envw, envu;                                      /* model: latest definition (0 none); envu: 1 = defined by e */
  int loaded[NMOD], pending[NMOD], npending, redef, err;     /* err: 0 none, else expected terminal */
  int bound_v[NMOD], bound_w[NMOD], bound_u[NMOD], linked[NMOD], linked_now[NMOD]; /* per importer: what it was bound to when linked */
  int v_is_func;                                            /* for the redefinition rule */
  int last_err_code;
} world;

static void *res_hook (const char *name) { if (!strcmp (name, "v")) return (void *) res_v; if (!strcmp (name, "w")) return &res_w_datum; return NULL; }

static void *w_fresh (void *cfg) {
  world *w = calloc (1, sizeof *w); mh_open (&w->mc);
  if (mh_scan (&w->mc, MODS) != 0) { fprintf (stderr, "C13 modules rejected: %s\n", w->mc.errmsg); exit (3); }
  int i = 0; for (MIR_module_t m = DLIST_HEAD (MIR_module_t, *MIR_get_module_list (w->mc.ctx)); m && i < NMOD; m = DLIST_NEXT (MIR_module_t, m)) w->mod[i++] = m;
  return w;
}
static void w_destroy (void *p) { world *w = p; mh_close (&w->mc); free (w); }
static void w_opname (int op, char *buf, size_t n) {
  if (op < NMOD) snprintf (buf, n, "load(%s)", MNAME[op]);
  else { static const char *nm[] = {"ext(v,1)", "ext(v,2)", "ext(w)", "link", "link+resolver", "permit-redef"}; snprintf (buf, n, "%s", nm[op - NMOD]); }
}
static void failh (const char *kind, const char *fmt, ...) {
  char hist[1200], msg[600]; va_list ap; bfs_history_text (hist, sizeof hist); va_start (ap, fmt); vsnprintf (msg, sizeof msg, fmt, ap); va_end (ap);
  vp_fail (kind, "history=[%s] %s", hist, msg);
}
static MIR_item_t find_item (MIR_module_t m, const char *name) { for (MIR_item_t it = DLIST_HEAD (MIR_item_t, m->items); it; it = DLIST_NEXT (MIR_item_t, it)) if (it->item_type == MIR_func_item && !strcmp (it->u.func->name, name)) return it; return NULL; }
static int64_t call_entry (world *w, int m, const char *fn, int *ok) {
  MIR_val_t r; r.i = -1; MIR_item_t it = find_item (w->mod[m], fn); *ok = 0;
  mh_cur = &w->mc; mh_arm (1);
  if (setjmp (mh_err_jb) == 0) { MIR_interp (w->mc.ctx, it, &r, 0); *ok = 1; }
  mh_arm (0);
  return r.i;
}
static int imports_v (int m) { return m == M_B || m == M_C || m == M_E; }
static int imports_w (int m) { return m == M_B || m == M_C; }
static int imports_u (int m) { return m == M_G; }

static int w_apply (void *p, int op, int step, int check) {
  world *w = p; MIR_context_t ctx = w->mc.ctx;
  if (w->dead || w->err) return 0;                      /* after an error the history is terminal */
  int expect_err = 0, unconstrained_err = 0;
  if (op < NMOD) {
    if (w->loaded[op]) return 0;
    /* model */
    if ((op == M_A1 || op == M_A2) && w->envv != 0 && !w->redef) { if (w->v_is_func) expect_err = MIR_repeated_decl_error; else unconstrained_err = 1; }
    w->loaded[op] = 1; w->pending[w->npending++] = op;
    if (op == M_A1) { w->envv = 1; w->v_is_func = 1; } else if (op == M_A2) { w->envv = 2; w->v_is_func = 1; } else if (op == M_D1) w->envw = 100; else if (op == M_D2) w->envw = 200; else if (op == M_E) w->envu = 1;
  } else if (op == OP_EXTV1 || op == OP_EXTV2) { w->envv = op == OP_EXTV1 ? 11 : 12; w->v_is_func = 0; }
  else if (op == OP_EXTW) w->envw = 300;
  else if (op == OP_REDEF) { if (w->redef) return 0; w->redef = 1; }
  else { /* link */
    if (w->npending == 0) return 0;
    int res = op == OP_LINKRES;
    for (int i = 0; i < w->npending && !expect_err; i++) { int m = w->pending[i];
      if (imports_v (m)) { if (w->envv == 0) { if (res) { w->envv = 7; w->v_is_func = 0; } else expect_err = MIR_undeclared_op_ref_error; } if (!expect_err) w->bound_v[m] = w->envv; }
      if (!expect_err && imports_w (m)) { if (w->envw == 0) { if (res) w->envw = 700; else expect_err = MIR_undeclared_op_ref_error; } if (!expect_err) w->bound_w[m] = w->envw; }
      if (!expect_err && imports_u (m)) { if (w->envu == 0) expect_err = MIR_undeclared_op_ref_error; /* the resolver does not know u */ else w->bound_u[m] = 1; }
    }
    memset (w->linked_now, 0, sizeof w->linked_now);
    if (!expect_err) { for (int i = 0; i < w->npending; i++) w->linked[w->pending[i]] = w->linked_now[w->pending[i]] = 1; w->npending = 0; }
  }
  /* real */
  int errored = 0;
  mh_cur = &w->mc; mh_arm (1);
  if (setjmp (mh_err_jb) == 0) {
    if (op < NMOD) MIR_load_module (ctx, w->mod[op]);
    else if (op == OP_EXTV1) MIR_load_external (ctx, "v", (void *) ext_v1);
    else if (op == OP_EXTV2) MIR_load_external (ctx, "v", (void *) ext_v2);
    else if (op == OP_EXTW) MIR_load_external (ctx, "w", &ext_w_datum);
    else if (op == OP_REDEF) MIR_set_func_redef_permission (ctx, 1);
    else MIR_link (ctx, MIR_set_interp_interface, op == OP_LINKRES ? res_hook : NULL);
  } else errored = 1;
  mh_arm (0);
  if (errored) { w->dead = 1; w->last_err_code = w->mc.err_type; }
  if (check) {
    if (unconstrained_err) vp_count ("unconstrained_transitions", 1);
    else if (expect_err && !errored) failh ("missing-error", "the model expects error %d (repeated declaration / undefined import) but the operation succeeded", expect_err);
    else if (expect_err && errored && w->mc.err_type != (MIR_error_type_t) expect_err) failh ("wrong-error-code", "error code %d reported, %d expected: %s", w->mc.err_type, expect_err, w->mc.errmsg);
    else if (!expect_err && errored) failh ("unexpected-error", "error %d: %s", w->mc.err_type, w->mc.errmsg);
  }
  if (errored) return 1;                       /* terminal */
  if (expect_err) { w->err = 1; return 1; }    /* the model says the history ends here (the missing error was reported above) */
  /* observe: every linked importer's entry function must run the version it was bound to */
  if (check && (op == OP_LINK || op == OP_LINKRES)) {
    static const struct { int m; const char *fn; } E[] = {{M_B, "callb"}, {M_C, "callc"}, {M_E, "u"}, {M_G, "callg"}};
    for (int i = 0; i < 4; i++) { int m = E[i].m; if (!w->linked[m]) continue;
      int ok; int64_t got = call_entry (w, m, E[i].fn, &ok), want;
      if (m == M_E) want = w->bound_v[M_E] + 50; else if (m == M_G) { want = w->bound_v[M_E] + 50;
        if (!w->linked_now[M_E]) { /* g's import u is judged (it must reach e.u); which v the earlier-linked e.u (or its inlined copy) uses is not stated by the property */
          int64_t x = got - 50; if (ok && !(x == 1 || x == 2 || x == 7 || x == 11 || x == 12)) failh ("wrong-binding", "g.callg returned %lld which is not u()'s result for any definition of v", (long long) got);
          vp_count ("binding_observations", 1); continue; } } else want = (int64_t) w->bound_v[m] * 1000 + w->bound_w[m];
      if (m == M_G && !w->linked[M_E]) continue; /* u not linked yet: calling it is outside the property */
      if (!ok) { failh ("call-failed", "calling %s.%s raised error %d: %s", MNAME[m], E[i].fn, w->mc.err_type, w->mc.errmsg); w->dead = 1; break; }
      if (got != want && !w->linked_now[m]) { vp_count ("earlier_linked_importer_rebound(not judged)", 1); continue; } /* the property speaks about the moment the step completes */
      if (got != want) failh ("wrong-binding", "%s.%s returned %lld; bound at its link step to v=%d w=%d, expected %lld", MNAME[m], E[i].fn, (long long) got, w->bound_v[m], w->bound_w[m], (long long) want);
      vp_count ("binding_observations", 1);
    }
  }
  return 1;
}
static uint64_t w_canon (void *p) {
  world *w = p; uint64_t h = 21; MIR_context_t ctx = w->mc.ctx;
  h = vp_hash_u64 (h, w->dead); h = vp_hash_u64 (h, w->err != 0);
  if (w->dead) return vp_hash_u64 (h, w->last_err_code);
  /* real part: the addresses bound into the import items of every importer module, identified by what they point to */
  for (int mi = M_B; mi < NMOD; mi++)
    for (MIR_item_t imp = DLIST_HEAD (MIR_item_t, w->mod[mi]->items); imp; imp = DLIST_NEXT (MIR_item_t, imp)) {
      if (imp->item_type != MIR_import_item) continue;
      void *a = imp->addr; int id = a ? 99 : 0;
      for (int m = 0; m < NMOD && a; m++) for (MIR_item_t it = DLIST_HEAD (MIR_item_t, w->mod[m]->items); it; it = DLIST_NEXT (MIR_item_t, it))
        if ((it->item_type == MIR_func_item || it->item_type == MIR_data_item) && it->addr == a) id = m + 1;
      if (a == (void *) ext_v1) id = 11; else if (a == (void *) ext_v2) id = 12; else if (a == &ext_w_datum) id = 30; else if (a == (void *) res_v) id = 70; else if (a == &res_w_datum) id = 71;
      h = vp_hash_u64 (h, id);
    }
  h = vp_hash_u64 (h, w->envv); h = vp_hash_u64 (h, w->envw); h = vp_hash_u64 (h, w->envu); h = vp_hash_u64 (h, w->v_is_func);
  /* model part (not observable through the API): pending list, permission flag, per-importer bindings */
  h = vp_hash_u64 (h, w->redef); h = vp_hash_u64 (h, w->npending); for (int i = 0; i < w->npending; i++) h = vp_hash_u64 (h, w->pending[i]);
  for (int m = 0; m < NMOD; m++) { h = vp_hash_u64 (h, w->loaded[m] | w->linked[m] << 1); h = vp_hash_u64 (h, w->bound_v[m]); h = vp_hash_u64 (h, w->bound_w[m]); }
  return h;
}

static int depth;
void drv_init (int thorough) { depth = thorough ? 8 : 7; }
uint64_t drv_ncases (void) { return 1; }
void drv_describe (uint64_t idx, char *buf, size_t n) { snprintf (buf, n, "C13 BFS over load/load_external/link histories, depth %d", depth); }
void drv_case (uint64_t idx) {
  bfs_model m = {NOPS, w_fresh, w_destroy, w_apply, w_canon, w_opname, NULL};
  bfs_result r = bfs_run (&m, depth, NULL, 0);
  vp_count ("states", r.states); vp_count ("transitions", r.transitions); vp_max ("depth", r.max_depth);
  if (r.replay_divergences) vp_fail ("infra-replay-divergence", "canonical state differs between two replays of the same history");
  vp_sample ("history example: load(a1);load(b);ext(w);link;load(a2)... explored %llu states / %llu transitions to depth %d", (unsigned long long) r.states, (unsigned long long) r.transitions, depth);
  vp_nontrivial ();
}
