"""C07 - C programs compiled by c2mir behave as under gcc: exhaustive grammar families (binary expressions over all
pairs of arithmetic types x operators x boundary values in constant and run-time form, casts and unary operators,
bit-field operations, initializer shapes, control-flow skeletons, struct copies), c2m engines against the gcc-built
program; cases with undefined behaviour (UBSan report or gcc diagnostic) are dropped."""
import itertools, os, re, subprocess, concurrent.futures as cf
from core import build, runner

TYPES = [("_Bool", "b"), ("char", "c"), ("signed char", "sc"), ("unsigned char", "uc"), ("short", "s"), ("unsigned short", "us"), ("int", "i"), ("unsigned", "u"),
         ("long", "l"), ("unsigned long", "ul"), ("long long", "ll"), ("unsigned long long", "ull"), ("float", "f"), ("double", "d"), ("long double", "ld")]
VALS = {"_Bool": ["0", "1"], "char": ["0", "1", "-1", "127", "(-127-1)"], "signed char": ["0", "1", "-1", "127", "(-127-1)"], "unsigned char": ["0", "1", "255", "128", "7"],
        "short": ["0", "1", "-1", "32767", "(-32767-1)"], "unsigned short": ["0", "1", "65535", "32768", "9"], "int": ["0", "1", "-1", "2147483647", "(-2147483647-1)"],
        "unsigned": ["0u", "1u", "4294967295u", "2147483648u", "31u"], "long": ["0l", "1l", "-1l", "9223372036854775807l", "(-9223372036854775807l-1)"],
        "unsigned long": ["0ul", "1ul", "18446744073709551615ul", "9223372036854775808ul", "63ul"], "long long": ["0ll", "3ll", "-2ll", "9223372036854775807ll", "(-9223372036854775807ll-1)"],
        "unsigned long long": ["0ull", "2ull", "18446744073709551615ull", "4294967296ull", "64ull"], "float": ["0.0f", "1.5f", "-2.25f", "3.4028234e38f", "16777217.0f", "1.5e19f"],
        "double": ["0.0", "0.1", "-1.0", "1e308", "9007199254740993.0", "1e19", "3e9"], "long double": ["0.0L", "1.0L", "-0.5L", "1e4000L", "18446744073709551615.0L", "9223372036854775808.0L"]}
BINOPS = ["+", "-", "*", "/", "%", "<<", ">>", "<", ">", "<=", ">=", "==", "!=", "&", "^", "|", "&&", "||", "?:"]
INT_ONLY = {"%", "<<", ">>", "&", "^", "|"}

PRE = r"""#include <stdio.h>
#include <string.h>
#define TAG(x) _Generic ((x), _Bool: "b", char: "c", signed char: "sc", unsigned char: "uc", short: "s", unsigned short: "us", int: "i", unsigned: "u", long: "l", unsigned long: "ul", \
  long long: "ll", unsigned long long: "ull", float: "f", double: "d", long double: "ld")
static void pi (int id, const char *tag, long long v) { printf ("%d %s %lld\n", id, tag, v); }
static void pu (int id, const char *tag, unsigned long long v) { printf ("%d %s %llu\n", id, tag, v); }
static void pf (int id, const char *tag, long double v) { if (v != v) printf ("%d %s nan\n", id, tag); else printf ("%d %s %La\n", id, tag, v); }
#define P(id, e) _Generic ((e), _Bool: pu, char: pi, signed char: pi, unsigned char: pu, short: pi, unsigned short: pu, int: pi, unsigned: pu, long: pi, unsigned long: pu, \
  long long: pi, unsigned long long: pu, float: pf, double: pf, long double: pf) (id, TAG (e), (e))
"""


def ival(t, v):
    """numeric value of one of the VALS literals after conversion to type t (integers only); None for fp"""
    if t in ("float", "double", "long double"):
        return None
    x = eval(re.sub(r"(?<=\d)(ull|ul|ll|l|u)\b", "", v))
    bits = {"_Bool": 1, "char": 8, "signed char": 8, "unsigned char": 8, "short": 16, "unsigned short": 16, "int": 32, "unsigned": 32}.get(t, 64)
    if t == "_Bool": return int(x != 0)
    x &= (1 << bits) - 1
    if not t.startswith("unsigned") and x >> (bits - 1): x -= 1 << bits
    return x


def traps(t1, v1, op, t2, v2):
    """integer division that traps on the host (the reference program would die): by zero, or MIN / -1"""
    if op not in ("/", "%", "/=", "%="): return False
    a, b = ival(t1, v1), ival(t2, v2)
    if a is None or b is None: return False
    return b == 0 or (b == -1 and a in (-(1 << 31), -(1 << 63))) or (b in ((1 << 32) - 1, (1 << 64) - 1) and a in (-(1 << 31), -(1 << 63)))


def fam_binary(types):
    cases = []
    for (t1, _), (t2, _) in itertools.product(types, types):
        fp = t1 in ("float", "double", "long double") or t2 in ("float", "double", "long double")
        for op in BINOPS:
            if fp and op in INT_ONLY:
                continue
            for v1, v2 in itertools.product(VALS[t1], VALS[t2]):
                if traps(t1, v1, op, t2, v2): continue
                if op == "?:":  # the conditional operator: result type from the usual arithmetic conversions of both arms
                    cases.append(("bin const (%s)%s ?: (%s)%s" % (t1, v1, t2, v2), [], "P (@ID@, 1 ? ((%s) %s) : ((%s) %s)); P (@ID@ + 1000000, 0 ? ((%s) %s) : ((%s) %s));" % (t1, v1, t2, v2, t1, v1, t2, v2)))
                    cases.append(("bin run (%s)%s ?: (%s)%s" % (t1, v1, t2, v2), [], "{ volatile %s a = %s; volatile %s b = %s; volatile int c = 1; P (@ID@, c ? a : b); c = 0; P (@ID@ + 1000000, c ? a : b); }" % (t1, v1, t2, v2)))
                    continue
                cases.append(("bin const (%s)%s %s (%s)%s" % (t1, v1, op, t2, v2), [], "P (@ID@, ((%s) %s) %s ((%s) %s));" % (t1, v1, op, t2, v2)))
                cases.append(("bin run (%s)%s %s (%s)%s" % (t1, v1, op, t2, v2), [], "{ volatile %s a = %s; volatile %s b = %s; P (@ID@, a %s b); }" % (t1, v1, t2, v2, op)))
    return cases


def fam_unary_cast(types):
    cases = []
    for (t1, _) in types:
        fp = t1 in ("float", "double", "long double")
        for v in VALS[t1]:
            for u in ["-", "+", "!"] + ([] if fp else ["~"]):
                cases.append(("unary const %s(%s)%s" % (u, t1, v), [], "P (@ID@, %s((%s) %s));" % (u, t1, v)))
                cases.append(("unary run %s(%s)%s" % (u, t1, v), [], "{ volatile %s a = %s; P (@ID@, %sa); }" % (t1, v, u)))
            if t1 != "_Bool":
                for u in ["++a", "a++", "--a", "a--"]:
                    cases.append(("incdec %s (%s)%s" % (u, t1, v), [], "{ volatile %s a = %s; %s r = %s; P (@ID@, r); P (@ID@ + 1000000, a); }" % (t1, v, t1, u)))
            for (t2, _) in types:
                cases.append(("cast const (%s)(%s)%s" % (t2, t1, v), [], "P (@ID@, (%s) ((%s) %s));" % (t2, t1, v)))
                cases.append(("cast run (%s)(%s)%s" % (t2, t1, v), [], "{ volatile %s a = %s; P (@ID@, (%s) a); }" % (t1, v, t2)))
            for op in ["+=", "-=", "*=", "/=", "%=", "<<=", ">>=", "&=", "|=", "^="]:
                if fp and op in ("%=", "<<=", ">>=", "&=", "|=", "^="): continue
                for (t2, v2) in [("int", "3"), ("long", "-2l"), ("unsigned char", "200"), ("double", "2.5"), ("unsigned long long", "18446744073709551615ull")]:
                    if t2 == "double" and op in ("%=", "<<=", ">>=", "&=", "|=", "^="): continue
                    if traps(t1, v, op, t2, v2): continue
                    cases.append(("compound (%s)%s %s (%s)%s" % (t1, v, op, t2, v2), [], "{ volatile %s a = %s; volatile %s b = %s; a %s b; P (@ID@, a); }" % (t1, v, t2, v2, op)))
    return cases


def fam_bitfield():
    cases = []
    for w in [1, 2, 7, 8, 9, 15, 16, 17, 31, 32, 33, 63, 64]:
        for sign, base in (("signed", "int" if w <= 32 else "long"), ("unsigned", "unsigned" if w <= 32 else "unsigned long")):
            decl = "struct { int pad:3; %s f:%d; %s g:%d; } s;" % (base, w, base, min(w, 5))
            vals = ["0", "1", "-1", "(1ull << %d) - 1" % (w - 1), "1ull << %d" % (w - 1), "12345678901234567ll"]
            for v in vals:  # a bit-field cannot be a _Generic operand under gcc: print it converted to its declared type, and through an arithmetic expression (promotion)
                cases.append(("bitfield %s:%d = %s" % (sign, w, v), [], "{ %s memset (&s, 0, sizeof s); s.f = %s; P (@ID@, (%s) s.f); P (@ID@ + 1000000, (%s) s.g); %s }" % (decl, v, base, base, "P (@ID@ + 2000000, s.f + 0);" if w <= 32 else "")))
                cases.append(("bitfield %s:%d += %s" % (sign, w, v), [], "{ %s memset (&s, 0, sizeof s); s.f = 1; s.g = 3; s.f += %s; s.f++; P (@ID@, (%s) s.f); P (@ID@ + 1000000, (%s) s.g); P (@ID@ + 2000000, s.f < 0); P (@ID@ + 3000000, s.f > s.g); }" % (decl, v, base, base)))
    # value of an assignment expression whose left operand is a bit-field: the value of the field after the assignment (truncated to its width)
    for w in [1, 3, 4, 9, 16, 31, 32, 33]:
        for sign, base in (("signed", "int" if w <= 32 else "long"), ("unsigned", "unsigned" if w <= 32 else "unsigned long")):
            decl = "struct { int pad:3; %s f:%d; %s g:%d; } s;" % (base, w, base, min(w, 5))
            for v in ["300", "-1", "(1ull << %d)" % (w - 1), "(1ull << %d) - 1" % (w if w < 64 else 63), "7"]:
                cases.append(("bitfield assignment value %s:%d %s" % (sign, w, v), [],
                              "{ %s memset (&s, 0, sizeof s); volatile long long x = %s; long long r1 = (s.f = x), r2 = (s.f += 10), r3 = ++s.f, r4 = s.f--, r5 = (s.f *= 3), r6 = (s.f |= x); P (@ID@, r1); P (@ID@ + 1000000, r2); P (@ID@ + 2000000, r3); "
                              "P (@ID@ + 3000000, r4); P (@ID@ + 4000000, r5); P (@ID@ + 5000000, r6); P (@ID@ + 6000000, (%s) s.f); P (@ID@ + 7000000, (s.g = x) ? 1 : 2); }" % (decl, v, base)))
    for v in ["0", "1", "2", "256", "-1", "0.5", "0.0", "4294967296ll"]:  # _Bool bit-field and member: conversion to _Bool compares with zero
        decl = "struct { _Bool f:1; unsigned u:3; _Bool g; } s;"
        cases.append(("bitfield _Bool:1 = %s" % v, [], "{ %s volatile %s x = %s; memset (&s, 0, sizeof s); s.f = x; s.g = x; s.u = 5; P (@ID@, (int) s.f); P (@ID@ + 1000000, (int) s.g); s.f ^= 1; s.g += x; P (@ID@ + 2000000, (int) s.f); P (@ID@ + 3000000, (int) s.g); }" % (decl, "double" if "." in v else "long long" if v.endswith("ll") else "int", v)))
    return cases


def fam_implicit(types):
    """implicit conversion at every site that converts 'as if by assignment': initialization, assignment, argument, return"""
    cases = []
    for (t2, g2) in types:
        hs = ["static %s cvarg_%s (%s x) { return x; }" % (t2, g2, t2)]
        for (t1, g1) in types:
            h1 = "static %s cvret_%s_%s (%s x) { return x; }" % (t2, g2, g1, t1)
            for v in VALS[t1]:
                cases.append(("implicit %s <- (%s)%s" % (t2, t1, v), hs + [h1],
                              "{ volatile %s a = %s; %s i = a; %s j; j = a; P (@ID@, i); P (@ID@ + 1000000, j); P (@ID@ + 2000000, cvarg_%s (a)); P (@ID@ + 3000000, cvret_%s_%s (a)); static %s k = (%s) %s; P (@ID@ + 4000000, k); }"
                              % (t1, v, t2, t2, g2, g2, g1, t2, t1, v)))
    return cases


def fam_literal():
    cases = []
    lits = ["0", "1", "2147483647", "2147483648", "4294967295", "4294967296", "9223372036854775807", "0x7fffffff", "0x80000000", "0xffffffff", "0x100000000", "0x7fffffffffffffff", "0x8000000000000000", "0xffffffffffffffff",
            "017777777777", "020000000000", "037777777777", "040000000000", "01777777777777777777777", "0777777777777777777777", "1000000000000000000000"[:19]]
    for l in lits:
        for suf in ["", "u", "l", "ul", "ll", "ull", "U", "L", "LL", "uLL", "lu", "llu"]:
            cases.append(("literal %s%s" % (l, suf), [], "P (@ID@, %s%s); P (@ID@ + 1000000, -%s%s); P (@ID@ + 2000000, sizeof (%s%s));" % (l, suf, l, suf, l, suf)))
    for l in ["1.0", "1.0f", "1.0L", "1e0", "0x1p3", "0x1.8p1f", "1.", ".5", "1e-5L", "3.4028235e38f", "1.7976931348623157e308", "4.9406564584124654e-324", "1.17549435e-38f", "0.1", "0.1f", "0.1L"]:
        cases.append(("literal %s" % l, [], "P (@ID@, %s); P (@ID@ + 1000000, sizeof (%s)); P (@ID@ + 2000000, %s + 1);" % (l, l, l)))
    for l in ["'a'", "'\\0'", "'\\377'", "'\\x7f'", "'\\n'", "'\\''", "'\\\\'", "'\\101'", "'\\x80'"]:
        cases.append(("literal %s" % l, [], "P (@ID@, %s); P (@ID@ + 1000000, sizeof (%s)); P (@ID@ + 2000000, (char) %s); P (@ID@ + 3000000, %s < 0);" % (l, l, l, l)))
    for e in ["sizeof (char)", "sizeof (long double)", "_Alignof (long double)", "_Alignof (char)", "sizeof (int[3])", "sizeof \"abc\"", "sizeof (struct { char c; long l; })", "_Alignof (struct { char c; short s; })",
              "(char *) 0 == 0", "sizeof (int) * -1 < 0", "-1 < 0u", "-1l < 0u", "-1 < (unsigned char) 1", "(unsigned short) 65535 * (unsigned short) 2", "1 ? -1 : 0u", "0 ? 1l : 2u", "1 ? (char) 1 : (short) 2", "1 ? 1.0f : 2", "(1, 2ul)",
              "sizeof (1 ? (char) 1 : (char) 2)", "sizeof ((char) 1 + (char) 1)", "sizeof (+(char) 1)", "sizeof (!1.0)", "sizeof (1 == 1l)", "sizeof (1 << 1l)", "sizeof ((char) 1 << 1ll)", "sizeof (1l << (char) 1)", "7 / 2", "-7 / 2", "-7 % 3", "7 % -3",
              "-7 >> 1", "1u << 31", "~0u >> 31", "~0 == -1", "!0 + !5", "(_Bool) 0.5 + (_Bool) 2", "3 > 2 > 1", "1 < 2 == 1", "2 & 3 == 3", "1 + 2 << 3", "-2147483647 - 1 == (int) 2147483648u"]:
        cases.append(("literal expr %s" % e, [], "P (@ID@, %s);" % e))
    return cases


def fam_pointer():
    cases = []
    idx = [("signed char", ["0", "1", "-1", "100", "-100"]), ("unsigned char", ["0", "1", "100", "200"]), ("short", ["0", "-1", "120"]), ("unsigned short", ["0", "120"]), ("int", ["0", "1", "-1", "-120"]), ("unsigned", ["0u", "3u", "120u"]),
           ("long", ["0l", "-1l", "77l"]), ("unsigned long", ["0ul", "77ul"]), ("long long", ["-5ll", "5ll"]), ("unsigned long long", ["9ull"]), ("_Bool", ["0", "1"])]
    hs = ["struct PE { char c; short s[3]; long l; };", "static int parr[600];", "static struct PE sarr[600];", "static void pinit (void) { for (int i = 0; i < 600; i++) { parr[i] = i * 3 - 700; sarr[i].l = i * 5 + 1; sarr[i].s[1] = (short) (i - 300); sarr[i].c = (char) i; } }"]
    for t, vs in idx:
        for v in vs:
            cases.append(("pointer index (%s)%s" % (t, v), hs,
                          "{ pinit (); volatile %s i = %s; int *p = parr + 300; struct PE *q = sarr + 300; P (@ID@, p[i]); P (@ID@ + 1000000, *(p + i)); P (@ID@ + 2000000, *(i + p)); P (@ID@ + 3000000, q[i].l + q[i].s[1] + q[i].c); "
                          "int *r = p; r += i; P (@ID@ + 4000000, r - p); P (@ID@ + 5000000, (long) (&q[i].s[2] - &q[0].s[0])); r = p - i; P (@ID@ + 6000000, *r); P (@ID@ + 7000000, (&q[i] > q) + 2 * (&q[i] == q) + 4 * (p + i <= p)); "
                          "r = p; P (@ID@ + 8000000, *r++ + *++r + *--r); P (@ID@ + 9000000, (long) ((char *) (q + i) - (char *) q)); }" % (t, v)))
    return cases


def fam_switch():
    cases = []
    for t, labels, vals in [("char", ["-1", "0", "'a'", "127"], ["-1", "0", "97", "127", "5"]), ("unsigned char", ["0", "255", "128"], ["0", "255", "128", "1"]), ("short", ["-32768", "32767", "0"], ["(-32767-1)", "32767", "0", "4"]),
                            ("int", ["-2147483647-1", "2147483647", "0", "1", "2", "3", "100"], ["(-2147483647-1)", "2147483647", "0", "1", "2", "3", "100", "50"]),
                            ("unsigned", ["0", "4294967295u", "2147483648u"], ["0u", "4294967295u", "2147483648u", "7u"]),
                            ("long long", ["-9223372036854775807ll-1", "4294967296ll", "0", "-1"], ["(-9223372036854775807ll-1)", "4294967296ll", "0ll", "-1ll", "1ll"]),
                            ("unsigned long", ["18446744073709551615ul", "4294967297ul", "1"], ["18446744073709551615ul", "4294967297ul", "1ul", "0ul"]), ("_Bool", ["0", "1"], ["0", "1"])]:
        for fall in (0, 1):
            body = " ".join("case %s: r += %d;%s" % (l, 10 ** (k % 6) * (k // 6 + 1), "" if fall and k % 2 else " break;") for k, l in enumerate(labels))
            for dflt in (0, 1):
                for v in vals:
                    cases.append(("switch (%s)%s labels=%s fall=%d default=%d" % (t, v, ",".join(labels), fall, dflt), [],
                                  "{ volatile %s x = %s; long r = 0; switch (x) { %s %s } P (@ID@, r); }" % (t, v, body, "default: r += 7000000;" if dflt else "")))
    for n in (3, 4, 5, 8, 17, 40):  # dense and sparse label sets: jump tables
        for stride in (1, 3, 1000):
            body = " ".join("case %d: r = %d; break;" % (k * stride - 2, k + 1) for k in range(n))
            for v in sorted(set([-3, -2, -1, 0, 1, (n - 1) * stride - 2, (n - 1) * stride - 1, n * stride, stride, 2 * stride - 2])):
                cases.append(("switch dense n=%d stride=%d x=%d" % (n, stride, v), [], "{ volatile int x = %d; long r = 0; switch (x) { %s default: r = -1; } P (@ID@, r); }" % (v, body)))
    return cases


def fam_varargs():
    cases = []
    hs = ["#include <stdarg.h>",
          "static long double vsum (const char *f, ...) { va_list ap; long double s = 0; va_start (ap, f); for (; *f; f++) switch (*f) { case 'i': s += va_arg (ap, int); break; case 'u': s += va_arg (ap, unsigned); break; "
          "case 'l': s += va_arg (ap, long); break; case 'U': s += va_arg (ap, unsigned long long); break; case 'd': s += va_arg (ap, double); break; case 'L': s += va_arg (ap, long double); break; "
          "case 'p': s += *va_arg (ap, int *); break; case 's': { struct VS v = va_arg (ap, struct VS); s += v.a + v.b; break; } } va_end (ap); return s; }"]
    hs.insert(1, "struct VS { int a; double b; };")
    args = {"i": ["(char) -3", "(short) 300", "-7", "(_Bool) 1", "(unsigned char) 250"], "u": ["4000000000u"], "l": ["-5000000000l"], "U": ["18000000000000000000ull"], "d": ["1.5f", "-2.25"], "L": ["3.5L"], "p": ["&vx"], "s": ["vs"]}
    keys = list(args)
    for n in range(1, 4):
        for combo in itertools.product(keys, repeat=n):
            a = ", ".join(args[k][(i + len(combo)) % len(args[k])] for i, k in enumerate(combo))
            cases.append(("varargs fmt=%s args=%s" % ("".join(combo), a), hs, "{ int vx = 11; struct VS vs = {2, 0.5}; P (@ID@, vsum (\"%s\", %s)); }" % ("".join(combo), a)))
    for n in (7, 9, 12):  # more arguments than argument registers
        for k in keys[:6]:
            a = ", ".join(args[k][i % len(args[k])] for i in range(n))
            cases.append(("varargs fmt=%s*%d" % (k, n), hs, "{ int vx = 11; struct VS vs = {2, 0.5}; P (@ID@, vsum (\"%s\", %s)); }" % (k * n, a)))
    return cases


def fam_init():
    cases = []
    S1 = "struct { int a; char b; double c; }"; S2 = "struct { int a[3]; struct { char x; long y; } s; }"; S3 = "struct { struct { int p, q; } a[2]; int z; }"
    shapes = [(S1 + " v = {1, 2, 3.5};", ["v.a", "v.b", "v.c"]), (S1 + " v = {.c = 3.5, .a = 1};", ["v.a", "v.b", "v.c"]), (S2 + " v = {{1, 2}, {3, 4}};", ["v.a[0]", "v.a[1]", "v.a[2]", "v.s.x", "v.s.y"]),
              (S2 + " v = {1, 2, 3, 4, 5};", ["v.a[0]", "v.a[1]", "v.a[2]", "v.s.x", "v.s.y"]), (S2 + " v = {.s.y = 9, .a[1] = 7};", ["v.a[0]", "v.a[1]", "v.a[2]", "v.s.x", "v.s.y"]),
              (S2 + " v = {.a[1] = 7, 8, .s = {1}, .a[0] = 2};", ["v.a[0]", "v.a[1]", "v.a[2]", "v.s.x", "v.s.y"]),
              ("int v[2][3] = {{1}, {2, 3}};", ["v[0][0]", "v[0][1]", "v[1][0]", "v[1][1]", "v[1][2]"]), ("int v[2][3] = {1, 2, 3, 4};", ["v[0][2]", "v[1][0]", "v[1][1]"]), ("int v[] = {[2] = 5, 6, [0] = 1};", ["v[0]", "v[1]", "v[2]", "v[3]", "sizeof v"]),
              ("union { int i; float f; char c[4]; } v = {.c = {1, 2, 3, 4}};", ["v.i"]), ("union { int i; float f; } v = {7};", ["v.i"]), ("struct { char s[6]; int n; } v = {\"abc\", 4};", ["v.s[0]", "v.s[3]", "v.s[5]", "v.n"]),
              ("struct { char s[3]; } v = {\"xyz\"};", ["v.s[0]", "v.s[2]"]), (S3 + " v = {{{1, 2}, {3}}, 4};", ["v.a[0].p", "v.a[0].q", "v.a[1].p", "v.a[1].q", "v.z"]), (S3 + " v = {1, 2, 3, 4, 5};", ["v.a[0].p", "v.a[0].q", "v.a[1].p", "v.a[1].q", "v.z"]),
              ("struct { int a; int b:5; int :0; int c:3; } v = {1, 2, 3};", ["v.a", "v.b + 0", "v.c + 0"]), ("char v[] = \"hi\" \"there\";", ["v[0]", "v[6]", "v[7]", "sizeof v"]), ("long double v[2] = {1.5L};", ["v[0]", "v[1]"]),
              ("struct { float f; _Bool b; short s[2]; } v = {0.1f, 5, {-1, 7000}};", ["v.f", "v.b", "v.s[0]", "v.s[1]"]), ("struct { int a; struct { int b; int c[2]; }; int d; } v = {1, {2, {3, 4}}, 5};", ["v.a", "v.b", "v.c[1]", "v.d"]),
              ("struct { int a; union { int b; char c; }; } v = {1, .c = 'x'};", ["v.a", "v.c"]), ("struct { char a[2][3]; int x; } v = {\"ab\", \"cd\", 5};", ["v.a[0][1]", "v.a[1][0]", "v.a[1][2]", "v.x"]),
              ("struct { char a[2][3]; int x; } v = {.a[1] = \"xy\", 9};", ["v.a[0][0]", "v.a[1][1]", "v.x"]), ("struct { char s[6]; int n; } v[2] = {\"a\", 1, \"b\", 2};", ["v[0].s[0]", "v[0].n", "v[1].s[0]", "v[1].s[1]", "v[1].n"]),
              ("struct { char s[6]; int n; } v[2] = {[1] = {\"q\", 8}, [0] = \"r\", 9};", ["v[0].s[0]", "v[0].n", "v[1].s[0]", "v[1].n"]), ("struct { int k; char s[4]; } v = {1, \"abc\"};", ["v.k", "v.s[2]", "v.s[3]"]),
              ("struct { char s[4]; char t[4]; char u; } v = {\"abc\", \"def\", 'g'};", ["v.s[0]", "v.t[0]", "v.t[3]", "v.u"]), ("struct { const char *p; char s[3]; const char *q; } v = {\"ab\", \"cd\", \"ef\"};", ["v.p[1]", "v.s[1]", "v.q[0]"]),
              ("union { char s[4]; int i; } v = {\"xyz\"};", ["v.s[2]", "v.s[3]"]), ("struct { unsigned a:3, b:7; unsigned long c:40; signed d:2; } v = {5, 100, 1000000000000ul, -1};", ["v.a + 0", "v.b + 0", "(unsigned long) v.c", "v.d + 0"]),
              ("struct { short h; struct { char c; long long w; } in[2]; } v = {.in[1].w = -1, .h = 3, .in[0] = {'q', 2}};", ["v.h", "v.in[0].c", "v.in[0].w", "v.in[1].c", "v.in[1].w"]),
              ("double v[3] = {[1] = 2, 3.5f};", ["v[0]", "v[1]", "v[2]"]), ("unsigned char v[4] = {300 - 45, 'a', 1.0};", ["v[0]", "v[1]", "v[2]", "v[3]"]), ("long v = {7};", ["v"]), ("int v[2] = {[0] = 1, [0] = 2};", ["v[0]", "v[1]"]), ("struct { struct { int a, b; } s; int c; } v = {.s = {1, 2}, .s.a = 5};", ["v.s.a", "v.s.b", "v.c"]),
              ("struct { struct { int a, b; } s; int c; } v = {1, 2, 3, .s.b = 9, 8};", ["v.s.a", "v.s.b", "v.c"]), ("int v[3] = {1, 2, 3, [1] = 7, 8};", ["v[0]", "v[1]", "v[2]"]),
              ("struct { int a:8; int b:8; int c; } v = {.c = 7, .b = 3};", ["v.a + 0", "v.b + 0", "v.c"]), ("struct { char x; int a:3; char y; long b:20; short z; } v = {1, 2, 3, 4, 5};", ["v.x", "v.a + 0", "v.y", "(long) v.b", "v.z"]),
              ("struct { int a:3; int :0; int b:4; _Bool c:1; _Bool d:1; } v = {-1, 7, 4, 0};", ["v.a + 0", "v.b + 0", "(int) v.c", "(int) v.d"]), ("struct { long a:33; long b:31; int c:1; } v = {-2, 5, -1};", ["(long) v.a", "(long) v.b", "v.c + 0"]),
              ("struct { int a:3; int b:3; } v = {.a = 1, .b = 2, .a = 3};", ["v.a + 0", "v.b + 0"]), ("struct { unsigned a:4; struct { unsigned b:4; } in; unsigned c:4; } v = {1, {2}, 3};", ["v.a + 0", "v.in.b + 0", "v.c + 0"]),
              ("struct { char s; unsigned long long f:64; int g:32; } v = {1, 0xfedcba9876543210ull, -2};", ["v.s", "(unsigned long long) v.f", "(int) v.g"]), ("struct { int a; } v[2] = {{1}, 2};", ["v[0].a", "v[1].a"])]
    for sc in ("static", "auto", "auto-nonconst"):
        for sh, obs in shapes:
            if sc == "auto-nonconst":  # automatic object whose initializers are run-time values
                if "\"" in sh: continue
                sh2 = re.sub(r"(?<![\w.\[])(-?\d+(\.\d+)?f?)(?![\w\]:])(?=[,}; ])", lambda m: "(vz + %s)" % m.group(1), sh.split("=", 1)[1]) if "=" in sh else None
                sh = sh.split("=", 1)[0] + "=" + sh2
            body = "{ volatile int vz = 0; %s %s %s }" % ("static" if sc == "static" else "", sh, " ".join("P (@ID@ + %d, %s);" % (k * 1000000, o) for k, o in enumerate(obs)))
            if sc == "static" and "long double" not in sh and "*" not in sh:  # all bytes of a static object are determined (padding is zero)
                body = body[:-1] + "unsigned char *p = (unsigned char *) &v; unsigned long h = sizeof v; for (unsigned k = 0; k < sizeof v; k++) h = h * 31 + p[k]; P (@ID@ + 50000000, h); }"
            cases.append(("init %s %s" % (sc, sh), [], body))
    return cases


def fam_control():
    cases = []
    conds = ["x < 3", "x & 1", "x == y", "!x", "x > y && y", "x || y > 2"]
    for c1, c2 in itertools.product(conds, conds[:4]):
        for shape in range(8):
            body = {0: "if (%s) r += 1; else if (%s) r += 2; else r += 4;" % (c1, c2),
                    1: "while (%s) { x++; r += 3; if (%s) break; if (r > 40) break; }" % (c1, c2),
                    2: "do { r += x; x += 2; if (%s) continue; r ^= 5; } while ((%s) && r < 50);" % (c2, c1),
                    3: "for (int k = 0; k < 5; k++) { if (%s) continue; r += k; if (%s) break; x++; }" % (c1, c2),
                    4: "switch (x & 3) { case 0: r += 1; case 1: r += 10; break; case 2: if (%s) { r += 100; break; } default: r += 1000; if (%s) r++; }" % (c1, c2),
                    5: "L1: r += 1; x++; if ((%s) && r < 9) goto L1; if (%s) goto L2; r += 50; L2: r += 7;" % (c1, c2),
                    6: "r = (%s) ? ((%s) ? 1 : 2) : ((%s) ? 3 : 4); r += x++ + ++y;" % (c1, c2, c2),
                    7: "for (x = 0; x < 4; x++) for (y = x; y < 4; y++) { if (%s) continue; if (%s) goto out; r += x * y; } out: r += 1;" % (c1, c2)}[shape]
            for x0, y0 in ((0, 0), (1, 3), (5, 2), (-1, 1)):
                cases.append(("control shape=%d c1=[%s] c2=[%s] x=%d y=%d" % (shape, c1, c2, x0, y0), [], "{ volatile int vx = %d, vy = %d; int x = vx, y = vy, r = 0; %s P (@ID@, r); P (@ID@ + 1000000, x); }" % (x0, y0, body)))
    return cases


def fam_structcopy():
    cases = []
    for n in [1, 2, 3, 4, 5, 7, 8, 9, 12, 15, 16, 17, 24, 31, 32, 33, 64, 65, 100]:
        helper = ["struct S%d { unsigned char b[%d]; };" % (n, n),
                  "static struct S%d mk%d (int seed) { struct S%d s; for (int i = 0; i < %d; i++) s.b[i] = (unsigned char) (seed * 7 + i * 13); return s; }" % (n, n, n, n),
                  "static unsigned long sum%d (struct S%d s) { unsigned long h = 0; for (int i = 0; i < %d; i++) h = h * 131 + s.b[i]; return h; }" % (n, n, n),
                  "static struct S%d pass%d (struct S%d s, int k) { s.b[k %% %d] ^= 0x5a; return s; }" % (n, n, n, n)]
        # copies between elements reached through one pointer: every (destination form, source form) pair
        forms = ["*p", "p[0]", "p[i]", "*(p + i)", "p[i + 1]", "q[0]", "*q", "q[-1]", "a[i]", "a[2]"]
        for d, s_ in itertools.product(forms, forms):
            if d == s_: continue
            cases.append(("structcopy size %d %s = %s" % (n, d, s_), helper,
                          "{ struct S%d a[4]; for (int k = 0; k < 4; k++) a[k] = mk%d (k + 1); volatile int vi = 1; int i = vi; struct S%d *p = a, *q = a + 2; %s = %s; P (@ID@, sum%d (a[0])); P (@ID@ + 1000000, sum%d (a[1])); P (@ID@ + 2000000, sum%d (a[2])); P (@ID@ + 3000000, sum%d (a[3])); }"
                          % (n, n, n, d, s_, n, n, n, n)))
        cases.append(("structcopy size %d assign/arg/return" % n, helper, "{ struct S%d a = mk%d (3), b, c[2]; b = a; c[1] = pass%d (b, 2); c[0] = c[1]; a.b[0]++; P (@ID@, sum%d (b)); P (@ID@ + 1000000, sum%d (c[0])); P (@ID@ + 2000000, sum%d (pass%d (pass%d (a, 1), 0))); }" % (n, n, n, n, n, n, n, n)))
    return cases


def families(thorough):
    t = TYPES if thorough else [TYPES[i] for i in (0, 2, 5, 6, 7, 9, 10, 13)]
    fams = [("binary", fam_binary(t)), ("unary-cast-compound", fam_unary_cast(t)), ("implicit-conversion", fam_implicit(t)), ("literal", fam_literal()), ("bitfield", fam_bitfield()), ("init", fam_init()), ("control", fam_control()),
            ("switch", fam_switch()), ("pointer", fam_pointer()), ("varargs", fam_varargs()), ("structcopy", fam_structcopy())]
    return fams


# ---------------------------------------------------------------------------------------------------- running
def run_cmd(cmd, timeout=600):
    try:
        r = subprocess.run(cmd, capture_output=True, text=True, errors="replace", timeout=timeout)
        return r.returncode, r.stdout, r.stderr
    except subprocess.TimeoutExpired:
        return -14, "", "timeout"


def tu_text(cases, base, skip=()):
    helpers = []; body = []; line_case = {}
    for j, (desc, hs, stmt) in enumerate(cases):
        for h in hs:
            if h not in helpers: helpers.append(h)
    head = PRE + "\n".join(helpers) + "\n"
    lines = head.count("\n")
    funcs = []
    for j, (desc, hs, stmt) in enumerate(cases):
        if j in skip: continue
        lines += 1
        line_case[lines] = j
        funcs.append("static void t%d (void) %s" % (j, stmt.replace("@ID@", str(j)) if stmt.startswith("{") else "{ %s }" % stmt.replace("@ID@", str(j))))
    main = "int main (void) { %s return 0; }\n" % " ".join("t%d ();" % j for j in range(len(cases)) if j not in skip)
    return head + "\n".join(funcs) + "\n" + main, line_case


def parse_out(out):
    res = {}
    for l in out.splitlines():
        m = re.match(r"(\d+) (\S+) (.*)$", l)
        if m:
            res.setdefault(int(m.group(1)) % 1000000, []).append((int(m.group(1)) // 1000000, m.group(2), m.group(3)))
    return res


def batch(args):
    bi, fam, cases, wd, c2m, engines = args
    src = os.path.join(wd, "c%d.c" % bi); exe = os.path.join(wd, "c%d.exe" % bi)
    GCC = ["gcc", "-std=c11", "-O1", "-Wall", "-Wextra", "-Wno-unused", "-Wno-sign-compare", "-Wno-parentheses", "-Wno-missing-braces", "-Wno-missing-field-initializers", "-Wno-bool-operation", "-Wno-int-in-bool-context",
           "-Wno-unused-value", "-Wno-unused-but-set-variable", "-Wno-type-limits", "-Wno-bool-compare", "-Wno-override-init",
           "-fsanitize=undefined,float-cast-overflow,float-divide-by-zero", "-fsanitize-recover=all", src, "-o", exe]
    bad = set()
    for attempt in range(4):  # cases gcc rejects outright (e.g. an out-of-range constant conversion in a static initializer) are outside the property: drop them and rebuild
        text, line_case = tu_text(cases, 0, bad)
        open(src, "w").write(text)
        rc, _, gerr = run_cmd(GCC)
        if rc == 0: break
        errs = set(line_case[int(m.group(1))] for m in re.finditer(r"^[^:\n]+:(\d+):\d+: error", gerr, re.M) if int(m.group(1)) in line_case)
        if not errs:
            return dict(infra="gcc rejected the generated TU (%s): %s" % (fam, " | ".join(l for l in gerr.splitlines() if "error" in l)[:400]))
        bad |= errs
    else:
        return dict(infra="gcc still rejects the generated TU after dropping the rejected cases (%s)" % fam)
    for m in re.finditer(r"^[^:\n]+:(\d+):\d+: warning: (.*)$", gerr, re.M):
        # a narrowing integer conversion of a constant is implementation-defined (modulo 2^N on this platform), not undefined: keep those cases
        if re.search(r"conversion from '(?!float|double|long double)[^']*' to '[^']*' changes value", m.group(2).replace("\u2018", "'").replace("\u2019", "'")): continue
        if int(m.group(1)) in line_case: bad.add(line_case[int(m.group(1))])
    rc, gout, gerr2 = run_cmd([exe])
    if rc < 0:
        return dict(infra="the gcc-built reference program died with signal %d (family %s)" % (-rc, fam))
    for m in re.finditer(r"^[^:\n]+:(\d+):\d+: runtime error", gerr2, re.M):
        if int(m.group(1)) in line_case: bad.add(line_case[int(m.group(1))])
    for j, (desc, hs, stmt) in enumerate(cases):  # constant and run-time forms of the same operation are adjacent: undefined in one form means undefined in the other
        if j in bad:
            for k in (j - 1, j + 1):
                if 0 <= k < len(cases) and cases[k][0].replace(" const ", " run ") == desc.replace(" const ", " run "): bad.add(k)
    ref = parse_out(gout)
    fails = []; compared = 0
    if bad:  # c2m gets the TU without the cases that have undefined behaviour or a gcc diagnostic (it rejects e.g. a constant division by zero)
        open(src, "w").write(tu_text(cases, 0, bad)[0])
    for eng in engines:
        crc, cout, cerr = run_cmd([c2m, src] + eng.split())
        got = parse_out(cout)
        if crc != 0 and not got:
            fails.append((fam, "whole TU (%d cases)" % len(cases), eng, "c2m-failed", "c2m exit %d: %s" % (crc, cerr.replace("\n", " ")[:300]))); continue
        for j, (desc, hs, stmt) in enumerate(cases):
            if j in bad or j not in ref: continue
            compared += 1
            if got.get(j) != ref[j]:
                fails.append((fam, desc, eng, "output-differs", "gcc: %s | c2m: %s" % (ref[j], got.get(j, "<no output>"))))
    for f in (src, exe):
        try: os.remove(f)
        except OSError: pass
    return dict(fails=fails, compared=compared, dropped=len(bad), n=len(cases))


def run(tier):
    rep = runner.Report("C07", tier, "exploration")
    thorough = tier == "thorough"
    c2m = build.c2m("prod"); wd = runner.workdir("C07")
    engines = ["-ei", "-eg -O0", "-eg -O1", "-eg -O2", "-eg -O3", "-el", "-eb"] if thorough else ["-ei", "-eg -O2", "-eb"]
    fams = families(thorough)
    B = 400
    batches = []
    for fam, cases in fams:
        for i in range(0, len(cases), B):
            batches.append((len(batches), fam, cases[i:i + B], wd, c2m, engines))
    compared = dropped = total = 0; per_fam = {}
    with cf.ThreadPoolExecutor(max_workers=runner.NCPU) as ex:
        for (bi, fam, cases, _, _, _), r in zip(batches, ex.map(batch, batches)):
            if "infra" in r:
                rep.add_fail("C07 batch %d" % bi, "harness", r["infra"]); continue
            compared += r["compared"]; dropped += r["dropped"]; total += r["n"]; per_fam[fam] = per_fam.get(fam, 0) + r["n"]
            for fam_, desc, eng, kind, msg in r["fails"]:
                rep.add_fail("C07 family=%s engine=[%s] %s" % (fam_, eng, desc), kind, msg)
    rep.coverage = dict(evaluations=compared, distinct_nontrivial=total - dropped,
                        rule="cases: every (T1,T2) pair of the tier's arithmetic types x 18 binary operators and ?: x 5x5 boundary values in constant-expression and run-time form (type via _Generic + value printed), every cast pair, unary, ++/--, compound assignment, "
                             "implicit conversion at initialization/assignment/argument/return/static initializer for every type pair, integer/floating/character literals x suffixes (type, value, sizeof), bit-fields of 13 widths x signedness x values and _Bool bit-fields, "
                             "initializer shapes (designators, overrides, unbraced strings, mixed-type bit-field units) as static/automatic/run-time-valued objects, 8 control-flow skeletons x 24 condition pairs x 4 inputs, switch over 8 controlling types and dense/sparse label sets, "
                             "pointer arithmetic with every index type, variadic calls (all format combinations up to 3 arguments, 7/9/12 homogeneous arguments), struct copies of 19 sizes; evaluations = (case, engine) outputs compared with the gcc-built program; "
                             "non-trivial = case accepted by gcc without UB-relevant diagnostic and without UBSan report in the reference",
                        cases=total, dropped_ub_or_diagnosed=dropped, per_family=per_fam, engines=engines, samples=[fams[0][1][7][0], fams[1][1][11][0], fams[2][1][3][0], fams[4][1][5][0]], exhaustive=True)
    rep.assumptions = ["gcc is the reference C compiler; programs are restricted to the grammar families; library calls other than printf/memset are not used"]
    return rep.finish()
