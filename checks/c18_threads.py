"""C18 - independent contexts can be used from different threads without interference: write-watch over the library's static memory,
bounded-preemption schedule exploration at allocator callbacks, free-running ThreadSanitizer pass."""
import os, subprocess, hashlib
from core import build, runner

SRCS = ["checks/c18_threads.c", "core/vp.c"]
REPO = "/repo"

def watch_lib():
    """the library as a shared object of its own, so that its .data/.bss can be write-protected"""
    srcs = [os.path.join(REPO, f) for f in ("mir.c", "mir-gen.c", "c2mir/c2mir.c")]
    h = hashlib.sha256()
    for f in srcs:
        h.update(subprocess.run(["gcc", "-E", "-P", "-DNDEBUG", "-I" + REPO, f], capture_output=True).stdout)
    d = os.path.join(build.VERIF, "build", "lib", "watch-" + h.hexdigest()[:16]); so = os.path.join(d, "libmirwatch.so")
    if not os.path.exists(so):
        os.makedirs(d, exist_ok=True)
        r = subprocess.run(["gcc", "-shared", "-fPIC", "-O2", "-g", "-std=gnu11", "-w", "-DNDEBUG", "-fno-tree-sra", "-fno-ipa-cp-clone", "-I" + REPO, "-Wl,-z,now", "-Wl,-z,relro", "-o", so + ".tmp"] + srcs + ["-lm", "-ldl", "-lpthread"], capture_output=True, text=True)
        if r.returncode: raise SystemExit("BUILD FAILED (libmirwatch): " + r.stderr[-2000:])
        os.rename(so + ".tmp", so)
    return d

def run(tier):
    rep = runner.Report("C18", tier, "model_checking")
    thorough = tier == "thorough"
    # 1. write-watch
    d = watch_lib()
    exe = build.link_driver("c18w", "prod", SRCS, tus=(), cflags=("-DC18_WATCH",), ldflags=("-L" + d, "-lmirwatch", "-Wl,-rpath," + d))
    r1 = runner.run_driver(exe, tier, "C18", nshards=1, case_timeout=600, deadline=900)
    rep.add_driver_result(r1, "watch")
    # 2. schedules
    exe2 = build.link_driver("c18s", "prod", SRCS, tus=("mir", "mir-gen", "c2mir"))
    r2 = runner.run_driver(exe2, tier, "C18", case_timeout=1500, deadline=3000 if thorough else 1200)
    rep.add_driver_result(r2, "schedules")
    # 3. free-running pass under ThreadSanitizer (the scheduler's hand-offs would hide races from the detector)
    exe3 = build.link_driver("c18t", "tsan", SRCS, tus=("mir", "mir-gen", "c2mir"))
    env = dict(os.environ, VP_C18_FREE="1", TSAN_OPTIONS="halt_on_error=1:exitcode=66:report_signal_unsafe=0")
    r3 = runner.run_driver(exe3, tier, "C18", nshards=4, case_timeout=600, deadline=1500, env=env, limit=None if thorough else 64)
    rep.add_driver_result(r3, "tsan")
    s1, s2, s3 = r1["stats"], r2["stats"], r3["stats"]
    rep.coverage = dict(schedules=s2.get("schedules", 0), states=s2.get("schedules", 0), transitions=s2.get("scheduling_points", 0), traces_validated_against_impl=s2.get("schedules", 0),
                        watched_static_bytes=s1.get("watched_static_bytes", 0), static_locations_written=s1.get("static_locations_written", 0), workload_runs_under_watch=s1.get("workload_runs", 0),
                        thread_pairs=r2["done"], cases_with_2_preemptions=s2.get("cases_with_2_preemptions", 0), tsan_free_runs=s3.get("free_runs", 0), tsan_thread_triples=r3["done"],
                        samples=r1["samples"] + r2["samples"][:3], exhaustive=r1["exhaustive"] and r2["exhaustive"],
                        explanation="(1) the library (mir.c, mir-gen.c, c2mir.c as one shared object) has its .data/.bss write-protected while 8 context workloads (scan/API/binary read+write/c2mir; interp, gen -O0/-O2/-O3, lazy, lazy-BB) run twice next to a live context; "
                                    "every faulting write is recorded with its symbol and single-stepped, so the set of static locations written is complete for these workloads: it must be empty. "
                                    "(2) for every ordered pair of workloads two threads run them on their own contexts under a cooperative scheduler whose scheduling points are all MIR_alloc / MIR_code_alloc callbacks; every schedule with <= 1 preemption "
                                    "(thorough: <= 2 where the run has <= 1400 points) is executed and each thread must obtain the result it obtains alone. (3) the same workloads run free in 3 threads under ThreadSanitizer (halt on first report).")
    rep.assumptions = ["scheduling points are the allocator callbacks only; accesses between two callbacks are covered by the write-watch (no shared library memory is written) and by the ThreadSanitizer pass",
                       "libc (malloc, stdio) is trusted to be thread-safe", "mir2c and the c2mir driver program are not part of the watched library"]
    return rep.finish()
