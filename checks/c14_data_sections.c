/* C14 - loaded data items form contiguous, correctly initialised sections.
   All sequences of <= 3 items over an alphabet of 42 item shapes x {named, anonymous}, placed between two
   named sentinels; after load + link the harness reads item->addr and the bytes found there.  DESIGN.md §3 C14. */
#include "vp.h"
#include "mirh.h"
#include <string.h>
#include <stdlib.h>
#include <stdarg.h>

typedef enum { S_DATA, S_BSS, S_REF, S_LREF, S_EXPR } skind;
typedef struct { skind k; const char *text; int size; uint8_t bytes[48]; int ref_target; int64_t disp; int lref_form; const char *expr_type; } sym;
static sym SY[64]; static int n_sy;
static int max_len;
static int64_t ext1_datum = 0x77;

static void add_data (const char *type, const char *vals, const void *bytes, int size) { sym *s = &SY[n_sy++]; memset (s, 0, sizeof *s); s->k = S_DATA; static char buf[64][64]; snprintf (buf[n_sy], 64, "%s %s", type, vals); s->text = buf[n_sy]; s->size = size; memcpy (s->bytes, bytes, size); }
static void build_syms (void) {
  { int8_t v[3] = {-128, 1, 127}; add_data ("i8", "-128", v, 1); add_data ("i8", "-128, 1, 127", v, 3); }
  { uint16_t v[3] = {65535, 2, 3}; add_data ("u16", "65535", v, 2); add_data ("u16", "65535, 2, 3", v, 6); }
  { int32_t v[3] = {-2147483647 - 1, 5, 6}; add_data ("i32", "-2147483648", v, 4); add_data ("i32", "-2147483648, 5, 6", v, 12); }
  { int64_t v[3] = {INT64_MIN, -1, 9}; add_data ("i64", "-9223372036854775808", v, 8); add_data ("i64", "-9223372036854775808, -1, 9", v, 24); }
  { uint8_t v[1] = {200}; add_data ("u8", "200", v, 1); }
  { float v[3] = {1.5f, -2.25f, 1e30f}; add_data ("f", "1.5f", v, 4); add_data ("f", "1.5f, -2.25f, 1e30f", v, 12); }
  { double v[3] = {0.1, -2.5, 1e300}; add_data ("d", "0.1", v, 8); add_data ("d", "0.1, -2.5, 1e300", v, 24); }
  { long double v[2]; memset (v, 0, sizeof v); v[0] = 3.5L; v[1] = -0.125L; add_data ("ld", "3.5L", v, 16); add_data ("ld", "3.5L, -0.125L", v, 32); }
  { uint64_t v[1] = {1ull << 40}; add_data ("p", "1099511627776", v, 8); }
  static const int bl[] = {0, 1, 7, 8, 9}; static char bt[5][16];
  for (int i = 0; i < 5; i++) { sym *s = &SY[n_sy++]; memset (s, 0, sizeof *s); s->k = S_BSS; snprintf (bt[i], 16, "bss %d", bl[i]); s->text = bt[i]; s->size = bl[i]; }
  static const char *rt[] = {"s0", "later", "ext1", "f"}; static char rtx[8][24];
  for (int t = 0; t < 4; t++) for (int d = 0; d < 2; d++) { sym *s = &SY[n_sy++]; memset (s, 0, sizeof *s); s->k = S_REF; snprintf (rtx[t * 2 + d], 24, "ref %s, %d", rt[t], d ? 5 : 0); s->text = rtx[t * 2 + d]; s->size = 8; s->ref_target = t; s->disp = d ? 5 : 0; }
  static const char *lf[] = {"lref L1", "lref L1, L2", "lref L2, 8", "lref L2, L1, -4"};
  for (int i = 0; i < 4; i++) { sym *s = &SY[n_sy++]; memset (s, 0, sizeof *s); s->k = S_LREF; s->text = lf[i]; s->size = 8; s->lref_form = i; }
  static const struct { const char *t; int size; } et[] = {{"i8", 1}, {"i16", 2}, {"i32", 4}, {"i64", 8}, {"f", 4}, {"d", 8}, {"ld", 16}, {"p", 8}}; static char etx[8][24];
  for (int i = 0; i < 8; i++) { sym *s = &SY[n_sy++]; memset (s, 0, sizeof *s); s->k = S_EXPR; snprintf (etx[i], 24, "expr ex_%s", et[i].t); s->text = etx[i]; s->size = et[i].size; s->expr_type = et[i].t;
    switch (i) { case 0: { int8_t v = -5; memcpy (s->bytes, &v, 1); break; } case 1: { int16_t v = -300; memcpy (s->bytes, &v, 2); break; } case 2: { int32_t v = 70000; memcpy (s->bytes, &v, 4); break; } case 3: { int64_t v = -(1ll << 40); memcpy (s->bytes, &v, 8); break; }
      case 4: { float v = 2.5f; memcpy (s->bytes, &v, 4); break; } case 5: { double v = -0.75; memcpy (s->bytes, &v, 8); break; } case 6: { long double v = 6.25L; memcpy (s->bytes, &v, 10); break; } default: { uint64_t v = 4096; memcpy (s->bytes, &v, 8); } } }
}
static const char *PRE =
  "m: module\nimport ext1\nforward later\n"
  "f: func i64, p:a\n  local i64:r\n  mov r, i64:(a)\n  jmpi r\nL1:\n  ret 1\nL2:\n  ret 2\n  ret 3\nendfunc\n"
  "ex_i8: func i8\n  ret -5\nendfunc\nex_i16: func i16\n  ret -300\nendfunc\nex_i32: func i32\n  ret 70000\nendfunc\nex_i64: func i64\n  ret -1099511627776\nendfunc\n"
  "ex_f: func f\n  ret 2.5f\nendfunc\nex_d: func d\n  ret -0.75\nendfunc\nex_ld: func ld\n  ret 6.25L\nendfunc\nex_p: func p\n  ret 4096\nendfunc\n"
  /* a function without jmpi whose label M1 is referenced only from data (see POST): the generator must keep the label */
  "f2: func i64, i64:a\n  local i64:r\n  mov r, 5\n  bt M1, a\n  jmp M2\nM1:\n  jmp M2\nM2:\n  ret r\nendfunc\n"
  "s0: i64 1229782938247303441\n";
static const char *POST = "s1: i64 2459565876494606882\nlater: i64 77\nla0: i64 5\n  lref L1\n  lref L2\nlb0: i64 1\n  lref M1\nendmodule\n"; /* the reference label slots sit behind a non-lref section head on purpose */

static uint64_t nsym2;
void drv_init (int thorough) { build_syms (); max_len = thorough ? 3 : 3; nsym2 = 2ull * n_sy; (void) thorough; }
static uint64_t pw (uint64_t b, int e) { uint64_t r = 1; while (e--) r *= b; return r; }
uint64_t drv_ncases (void) { uint64_t n = 0; for (int l = 1; l <= max_len; l++) n += pw (nsym2, l); return n; }
static int decode (uint64_t idx, int *symi, int *named) { int len = 1; while (idx >= pw (nsym2, len)) { idx -= pw (nsym2, len); len++; } for (int i = 0; i < len; i++) { uint64_t d = idx % nsym2; idx /= nsym2; symi[i] = (int) (d / 2); named[i] = (int) (d % 2); } return len; }
static char TXT[4096];
static void render (int len, const int *symi, const int *named) {
  size_t k = snprintf (TXT, sizeof TXT, "%s", PRE);
  for (int i = 0; i < len; i++) { if (named[i]) k += snprintf (TXT + k, sizeof TXT - k, "n%d: ", i); k += snprintf (TXT + k, sizeof TXT - k, "%s\n", SY[symi[i]].text); }
  snprintf (TXT + k, sizeof TXT - k, "%s", POST);
}
void drv_describe (uint64_t idx, char *buf, size_t n) {
  int symi[4], named[4], len = decode (idx, symi, named); size_t k = snprintf (buf, n, "C14 items=[");
  for (int i = 0; i < len && k < n; i++) k += snprintf (buf + k, n - k, "%s%s%s", i ? " ; " : "", named[i] ? "named " : "anon ", SY[symi[i]].text);
  if (k < n) snprintf (buf + k, n - k, "]");
}
static MIR_item_t item_by_name (mh_ctx *mc, const char *name) {
  MIR_module_t m = DLIST_HEAD (MIR_module_t, *MIR_get_module_list (mc->ctx));
  for (MIR_item_t it = DLIST_HEAD (MIR_item_t, m->items); it; it = DLIST_NEXT (MIR_item_t, it)) { const char *n = MIR_item_name (mc->ctx, it); if (n && !strcmp (n, name) && it->item_type != MIR_forward_item && it->item_type != MIR_import_item && it->item_type != MIR_export_item) return it; }
  return NULL;
}
static int data_kind_p (MIR_item_t it) { return it->item_type == MIR_data_item || it->item_type == MIR_bss_item || it->item_type == MIR_ref_data_item || it->item_type == MIR_lref_data_item || it->item_type == MIR_expr_data_item; }

void drv_case (uint64_t idx) {
  int symi[4], named[4], len = decode (idx, symi, named), has_lref = 0; render (len, symi, named);
  for (int i = 0; i < len; i++) if (SY[symi[i]].k == S_LREF) has_lref = 1;
  for (int eng = 0; eng < (has_lref ? 2 : 1); eng++) {
    mh_ctx mc; mh_open (&mc);
    if (mh_scan (&mc, TXT) != 0) { vp_fail ("harness-invalid-case", "%s", mc.errmsg); mh_close (&mc); return; }
    mh_cur = &mc; mh_arm (1);
    if (setjmp (mh_err_jb) != 0) { mh_arm (0); vp_fail ("mir-error", "load/link failed: %s", mc.errmsg); mh_close (&mc); return; }
    MIR_load_module (mc.ctx, DLIST_HEAD (MIR_module_t, *MIR_get_module_list (mc.ctx))); MIR_load_external (mc.ctx, "ext1", &ext1_datum);
    if (eng == 0) MIR_link (mc.ctx, MIR_set_interp_interface, NULL); else { MIR_gen_init (mc.ctx); mc.gen_inited = 1; MIR_gen_set_optimize_level (mc.ctx, 2); MIR_link (mc.ctx, MIR_set_gen_interface, NULL); }
    mh_arm (0);
    MIR_item_t s0 = item_by_name (&mc, "s0"), s1 = item_by_name (&mc, "s1"), later = item_by_name (&mc, "later"), f = item_by_name (&mc, "f"), la0 = item_by_name (&mc, "la0"); uint8_t *la1a = (uint8_t *) la0->addr + 8, *la2a = (uint8_t *) la0->addr + 16;
    /* make label addresses defined: they are set up when the function is prepared for execution */
    int64_t (*fn) (void *) = f->addr; int64_t lab1 = 0, lab2 = 0;
    if (has_lref) {
      int64_t r1 = 0, r2 = 0;
      if (eng == 0) { MIR_val_t r, a; a.a = la1a; r.i = 0; mh_arm (1); if (setjmp (mh_err_jb) == 0) { MIR_interp_arr (mc.ctx, f, &r, 1, &a); r1 = r.i; a.a = la2a; MIR_interp_arr (mc.ctx, f, &r, 1, &a); r2 = r.i; } mh_arm (0); }
      else { r1 = fn (la1a); r2 = fn (la2a); }
      if (r1 != 1 || r2 != 2) vp_fail ("lref-slot-not-usable", "jmpi through the label slots behind la0 returned %lld and %lld instead of 1 and 2", (long long) r1, (long long) r2);
      memcpy (&lab1, la1a, 8); memcpy (&lab2, la2a, 8);
    }
    MIR_item_t it = DLIST_NEXT (MIR_item_t, s0); uint8_t *expect_addr = NULL; MIR_item_t prev = s0; int prev_size = 8;
    if (!s0->section_head_p) vp_fail ("section-head", "named sentinel s0 is not a section head");
    for (int i = 0; i < len; i++, it = DLIST_NEXT (MIR_item_t, it)) {
      sym *s = &SY[symi[i]]; uint8_t want[48]; int size = s->size;
      if (it == NULL || !data_kind_p (it)) { vp_fail ("items", "item %d missing after load", i); break; }
      if (it->addr == NULL) { vp_fail ("no-address", "item %d (%s) has no address after load+link", i, s->text); break; }
      if (named[i]) { if (!it->section_head_p) vp_fail ("section-head", "named item %d (%s) does not start a section", i, s->text); }
      else {
        expect_addr = (uint8_t *) prev->addr + prev_size;
        if (it->section_head_p) vp_fail ("section-head", "anonymous item %d (%s) starts a new section", i, s->text);
        if ((uint8_t *) it->addr != expect_addr) vp_fail ("not-contiguous", "anonymous item %d (%s) is at offset %lld from its predecessor, whose size is %d", i, s->text, (long long) ((uint8_t *) it->addr - (uint8_t *) prev->addr), prev_size);
      }
      memcpy (want, s->bytes, sizeof want);
      if (s->k == S_REF) { void *t = s->ref_target == 0 ? s0->addr : s->ref_target == 1 ? later->addr : s->ref_target == 2 ? (void *) &ext1_datum : f->addr; int64_t v = (int64_t) (intptr_t) t + s->disp; memcpy (want, &v, 8); }
      if (s->k == S_LREF) { int64_t v = s->lref_form == 0 ? lab1 : s->lref_form == 1 ? lab1 - lab2 : s->lref_form == 2 ? lab2 + 8 : lab2 - lab1 - 4; memcpy (want, &v, 8); }
      int cmp_size = (s->k == S_DATA && s->text[0] == 'l') ? 0 : (s->k == S_EXPR && !strcmp (s->expr_type, "ld")) ? 10 : size;
      if (s->k == S_DATA && s->text[0] == 'l') { for (int e = 0; e < size / 16; e++) if (memcmp ((uint8_t *) it->addr + 16 * e, want + 16 * e, 10)) vp_fail ("wrong-bytes", "item %d (%s): long double element %d differs", i, s->text, e); }
      else if (cmp_size && memcmp (it->addr, want, cmp_size)) { int64_t got = 0; memcpy (&got, it->addr, size < 8 ? size : 8); vp_fail ("wrong-bytes", "item %d (%s): memory holds %#llx..., declared content differs", i, s->text, (unsigned long long) got); }
      if (s->k == S_LREF && s->lref_form == 0) { /* functional check: jmpi through the stored value lands on L1 */
        int64_t r1 = -1; if (eng == 0) { MIR_val_t r, a; a.a = it->addr; mh_arm (1); if (setjmp (mh_err_jb) == 0) { MIR_interp_arr (mc.ctx, f, &r, 1, &a); r1 = r.i; } mh_arm (0); } else r1 = fn (it->addr);
        if (r1 != 1) vp_fail ("lref-not-label", "jmpi through item %d (lref L1) returned %lld instead of reaching L1", i, (long long) r1); }
      prev = it; prev_size = size;
    }
    if (it != s1) vp_fail ("items", "sentinel s1 does not follow the sequence");
    else { if (!s1->section_head_p) vp_fail ("section-head", "named sentinel s1 is not a section head"); int64_t v; memcpy (&v, s1->addr, 8); if (v != 2459565876494606882ll) vp_fail ("wrong-bytes", "sentinel s1 overwritten"); memcpy (&v, s0->addr, 8); if (v != 1229782938247303441ll) vp_fail ("wrong-bytes", "sentinel s0 overwritten"); }
    if (has_lref) { int64_t r; if (eng == 0) { MIR_val_t rr, a; a.a = la2a; MIR_interp_arr (mc.ctx, f, &rr, 1, &a); r = rr.i; } else r = fn (la2a); if (r != 2) vp_fail ("lref-not-label", "jmpi through la2 returned %lld", (long long) r); }
    mh_close (&mc);
  }
  vp_count ("modules", 1); vp_nontrivial ();
  if (idx % 100003 == 0) { char d[400]; drv_describe (idx, d, sizeof d); vp_sample ("%s", d); }
}
