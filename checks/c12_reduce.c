/* C12 - compression layer: exhaustive round trip over small alphabets, exhaustive single-fault
   enumeration of encodings, crafted element sequences (DESIGN.md §3 C12).
   Memory-safety oracle: the decoder's reduce_data block is placed between two PROT_NONE guard pages
   (tail padding carries a canary); any SIGSEGV during decoding is "access outside own buffers".
   The asan build of the same driver uses plain malloc and lets ASan judge. */
#define _GNU_SOURCE
#include "vp.h"
#include <stdlib.h>
#include <string.h>
#include <signal.h>
#include <setjmp.h>
#include <sys/mman.h>
#include <unistd.h>
#include "mir-reduce.h"

#if defined(__SANITIZE_ADDRESS__)
#define PLAIN_ALLOC 1
#else
#define PLAIN_ALLOC 0
#endif

/* ---------------- guard allocator ---------------- */
static uint8_t *region, *blk; static size_t region_len, blk_size = sizeof (struct reduce_data);
static sigjmp_buf jb; static volatile int in_decode; static void *fault_addr;
static void segv (int sig, siginfo_t *si, void *uc) {
  if (!in_decode) { signal (sig, SIG_DFL); raise (sig); return; }
  fault_addr = si->si_addr; siglongjmp (jb, 1);
}
#define UNINIT 0xFF /* deterministic content of "uninitialised" memory; 0xFF makes unchecked indexes large */
static void *g_malloc (size_t size, void *ud) {
  if (PLAIN_ALLOC) { /* one heap block, reused: ASan's redzones around it stay in place */
    if (!blk) { blk = malloc (size); memset (blk, UNINIT, size); }
    if (size != blk_size) { fprintf (stderr, "unexpected alloc size %zu\n", size); exit (3); }
    return blk;
  }
  if (size != blk_size) { fprintf (stderr, "unexpected alloc size %zu\n", size); exit (3); }
  return blk;
}
static void *g_calloc (size_t n, size_t s, void *ud) { fprintf (stderr, "unexpected calloc\n"); exit (3); }
static void *g_realloc (void *p, size_t o, size_t n, void *ud) { fprintf (stderr, "unexpected realloc\n"); exit (3); }
static void g_free (void *p, void *ud) {}
static struct MIR_alloc GA = {g_malloc, g_calloc, g_realloc, g_free, NULL};
static const size_t BUF_OFF = offsetof (struct reduce_data, buf);
static void region_init (void) {
  if (PLAIN_ALLOC) return;
  size_t pg = 4096, body = (blk_size + pg - 1) / pg * pg;
  region_len = body + 2 * pg;
  region = mmap (0, region_len, PROT_READ | PROT_WRITE, MAP_PRIVATE | MAP_ANONYMOUS, -1, 0);
  mprotect (region, pg, PROT_NONE); mprotect (region + pg + body, pg, PROT_NONE);
  blk = region + pg + body - blk_size; /* end of the block touches the guard page */
  memset (region + pg, UNINIT, body);
  struct sigaction sa; memset (&sa, 0, sizeof sa); sa.sa_sigaction = segv; sa.sa_flags = SA_SIGINFO | SA_NODEFER;
  sigaction (SIGSEGV, &sa, 0); sigaction (SIGBUS, &sa, 0);
}
static void region_refresh (int full) { /* restore the "uninitialised" pattern where a decode may have written */
  if (!blk) return;
  struct reduce_data *d = (struct reduce_data *) blk;
  if (full) { memset (blk, UNINIT, blk_size); return; }
  memset (d, UNINIT, offsetof (struct reduce_data, u.decode.ind2pos) + 4096 * 4);
  memset (&d->aux_data, UNINIT, BUF_OFF - offsetof (struct reduce_data, aux_data) + 4104);
}

/* ---------------- in-memory streams ---------------- */
typedef struct { const uint8_t *in; size_t in_len, in_pos; uint8_t *out; size_t out_len, out_cap; } io_t;
static size_t rd (void *start, size_t len, void *aux) { io_t *io = aux; size_t n = io->in_len - io->in_pos; if (n > len) n = len; memcpy (start, io->in + io->in_pos, n); io->in_pos += n; return n; }
static size_t wr (const void *start, size_t len, void *aux) {
  io_t *io = aux;
  if (io->out_len + len > io->out_cap) { io->out_cap = (io->out_len + len) * 2 + 64; io->out = realloc (io->out, io->out_cap); }
  memcpy (io->out + io->out_len, start, len); io->out_len += len; return len;
}
static uint8_t *enc_buf, *dec_buf; static size_t enc_cap, dec_cap;
static size_t do_encode (const uint8_t *s, size_t n, int *ok) {
  io_t io = {s, n, 0, enc_buf, 0, enc_cap};
  *ok = reduce_encode (&GA, rd, wr, &io);
  enc_buf = io.out; enc_cap = io.out_cap; return io.out_len;
}
/* returns: ok flag; *n = decoded length; *oob = 1 if the decoder touched memory outside its block */
static int do_decode (const uint8_t *s, size_t n, size_t *out_n, int *oob) {
  io_t io = {s, n, 0, dec_buf, 0, dec_cap}; volatile int ok = 0;
  *oob = 0;
  if (!PLAIN_ALLOC) { /* canary in the tail padding of the block */
    for (size_t i = BUF_OFF + _REDUCE_BUF_LEN; i < blk_size; i++) blk[i] = 0xC3;
  }
  in_decode = 1;
  if (sigsetjmp (jb, 1) == 0) ok = reduce_decode (&GA, rd, wr, &io);
  else { *oob = 1; ok = 0; }
  in_decode = 0;
  if (!PLAIN_ALLOC) for (size_t i = BUF_OFF + _REDUCE_BUF_LEN; i < blk_size; i++) if (blk[i] != 0xC3) *oob = 2;
  dec_buf = io.out; dec_cap = io.out_cap; *out_n = io.out_len;
  { int full = *oob || io.out_len > 4000 || blk[BUF_OFF + 4100] != UNINIT; region_refresh (full); }
  return ok;
}

/* ---------------- case space ---------------- */
/* family 0: all strings over k symbols up to length L (round trip [+ faults up to length LF]) */
typedef struct { int k, maxlen, fault_maxlen; uint64_t first, count; } smallfam;
static smallfam SF[3]; static int n_sf;
static const uint8_t SYMS[4] = {'a', 'b', 0x00, 0xff};
/* family 1: boundary inputs, described by a generator id + params */
typedef struct { int gen; uint32_t p1, p2; int faults; } bcase;
static bcase BC[512]; static int n_bc;
/* family 2: crafted streams */
static uint64_t n_small, n_crafted;
static int thorough_g;

static uint64_t pw (uint64_t b, int e) { uint64_t r = 1; while (e-- > 0) r *= b; return r; }
static void add_b (int gen, uint32_t p1, uint32_t p2, int faults) { BC[n_bc++] = (bcase){gen, p1, p2, faults}; }

/* crafted element alphabet */
static const uint32_t C_SYM[] = {0, 1, 6, 7, 2047, 2048};
static const uint32_t C_REF[] = {0, 1, 30, 31, 127, 1u << 18, 0xfffffff0u, 0xfffffffcu}; /* 0 = no ref; value is the encoded (len-3) */
static const int C_IND[] = {0, 1, -1 /*cur*/, -2 /*cur+1*/, 1 << 18};
static const int C_FILL[] = {0, 8, (1 << 18) - 1, (1 << 18) - 4, (1 << 18) - 40, (1 << 18) - 2048};
#define NEL (6 * 8 * 5)
static uint64_t n_crafted_calc (int maxel) { uint64_t t = 0; for (int l = 1; l <= maxel; l++) t += pw (NEL, l); return t * 6; }

void drv_init (int thorough) {
  thorough_g = thorough;
  region_init ();
  uint64_t first = 0;
  int cfg[3][3] = {{2, thorough ? 16 : 13, thorough ? 13 : 11}, {3, thorough ? 10 : 8, thorough ? 9 : 7}, {4, thorough ? 8 : 6, thorough ? 7 : 5}};
  if (PLAIN_ALLOC) { int a[3][3] = {{2, 12, 9}, {3, 7, 5}, {4, 6, 4}}; memcpy (cfg, a, sizeof a); }
  for (int i = 0; i < 3; i++) {
    uint64_t cnt = 0; for (int l = 0; l <= cfg[i][1]; l++) cnt += pw (cfg[i][0], l);
    SF[n_sf++] = (smallfam){cfg[i][0], cfg[i][1], cfg[i][2], first, cnt}; first += cnt;
  }
  n_small = first;
  /* boundary families (generator, p1, p2, faults?) */
  const uint32_t B = _REDUCE_BUF_LEN;
  uint32_t lens[] = {B - 1, B, B + 1, 2 * B - 1, 2 * B, 2 * B + 1, 5 * B + 3};
  for (int i = 0; i < 7; i++) { add_b (0, lens[i], 1, i < 3); add_b (0, lens[i], 7, 0); add_b (3, lens[i], 0, 0); add_b (1, lens[i], 4, 0); }
  uint32_t periods[] = {1, 2, 3, 4, 5, 6, 7, 8, 255, 256, 2047, 2048};
  for (int i = 0; i < 12; i++) { add_b (0, 5000, periods[i], 1); add_b (0, B + 17, periods[i], 0); }
  uint32_t runs[] = {6, 7, 8, 2046, 2047, 2048, 2049, 4094, 4095};
  for (int i = 0; i < 9; i++) add_b (1, runs[i], 0, 1);             /* run of distinct bytes (literal lengths) */
  uint32_t ml[] = {4, 5, 33, 34, 35, 130, 131, 2047, 2048, 16383, 16384, 16385};
  for (int i = 0; i < 12; i++) add_b (2, ml[i], 200, 1);            /* one match of given length at distance p2 */
  uint32_t offs[] = {4, 127, 128, 129, 16383, 16384, 16385};
  for (int i = 0; i < 7; i++) add_b (2, 40, offs[i], i < 4);        /* one match of 40 at given symbol distance */
  add_b (3, 70000 * 4, 0, 0);                                       /* > 65536 distinct 4-grams: dictionary exhaustion */
  add_b (3, 300, 0, 1); add_b (3, 4000, 0, 0);
  add_b (4, 0, 0, 1);                                               /* empty */
  n_crafted = n_crafted_calc (thorough ? 3 : 2);
  if (PLAIN_ALLOC) n_crafted = 0; /* crafted streams are judged by the guard-page build (in-process fault capture) */
}
uint64_t drv_ncases (void) { return n_small + n_bc + n_crafted; }

static size_t gen_small (uint64_t idx, uint8_t *s, int *fam) {
  for (int f = 0; f < n_sf; f++) if (idx < SF[f].first + SF[f].count) {
    uint64_t r = idx - SF[f].first; int len = 0;
    while (r >= pw (SF[f].k, len)) { r -= pw (SF[f].k, len); len++; }
    for (int i = 0; i < len; i++) { s[i] = SYMS[r % SF[f].k]; r /= SF[f].k; }
    *fam = f; return len;
  }
  return 0;
}
static uint32_t lcg; static uint8_t lcg_byte (void) { lcg = lcg * 1664525u + 1013904223u; return lcg >> 24; }
static size_t gen_boundary (const bcase *b, uint8_t **out) {
  size_t n = 0; uint8_t *s;
  switch (b->gen) {
  case 0: n = b->p1; s = malloc (n + 1); for (size_t i = 0; i < n; i++) s[i] = 'A' + (i % b->p2) % 251 + ((i % b->p2) / 251) * 3; break; /* period-p2 repetition */
  case 1: n = b->p1; s = malloc (n + 1); for (size_t i = 0; i < n; i++) s[i] = (uint8_t) (i * 7 + i / 256 * 13 + (b->p2 ? i / b->p2 : 0)); break; /* slowly varying, few repeats of 4-grams nearby */
  case 2: { /* prefix P (distinct), gap so that distance = p2 symbols, then P[0..p1) again */
    size_t L = b->p1, D = b->p2 > L ? b->p2 : L; n = D + L; s = malloc (n + 1); lcg = 7;
    for (size_t i = 0; i < D; i++) s[i] = lcg_byte ();
    memcpy (s + D, s, L); break; }
  case 3: n = b->p1; s = malloc (n + 1); lcg = 12345 + b->p2; for (size_t i = 0; i < n; i++) s[i] = lcg_byte (); break; /* incompressible */
  default: n = 0; s = malloc (1);
  }
  *out = s; return n;
}

/* build a crafted stream; returns its length */
static size_t put_uint (uint8_t *p, uint32_t u) { /* same format as _reduce_uint_write but allowing the 5-byte form */
  int n; for (n = 1; n <= 4 && u >= (1u << 7 * n); n++);
  if (n <= 4) { p[0] = (1 << (8 - n)) | ((u >> (n - 1) * 8) & 0xff); for (int i = 2; i <= n; i++) p[i - 1] = (u >> (n - i) * 8) & 0xff; return n; }
  p[0] = 0x08 | 0; p[1] = u >> 24; p[2] = u >> 16; p[3] = u >> 8; p[4] = u; return 5; /* tag 00001xxx: n = 5 in the reader */
}
static size_t gen_crafted (uint64_t idx, uint8_t **out, char *desc, size_t dn) {
  int fill = C_FILL[idx % 6]; idx /= 6;
  int nel = 1; while (idx >= pw (NEL, nel)) { idx -= pw (NEL, nel); nel++; }
  uint8_t *s = malloc (fill + fill / 2047 * 4 + 64 + nel * (2048 + 32)), *p = s; size_t cur_ind = 0, k = 0;
  memcpy (p, "MIR", 3); p += 3;
  for (int rem = fill; rem > 0;) { /* filler: literal elements */
    int l = rem > 2047 ? 2047 : rem; *p++ = (l < 7 ? l : 7) << 5; if (l >= 7) p += put_uint (p, l);
    for (int i = 0; i < l; i++) *p++ = (uint8_t) ('a' + (cur_ind + i) % 23); cur_ind += l; rem -= l;
  }
  if (desc) k = snprintf (desc, dn, "fill=%d", fill);
  for (int e = 0; e < nel; e++) {
    uint32_t el = idx % NEL; idx /= NEL;
    uint32_t sym = C_SYM[el % 6], ref = C_REF[el / 6 % 8]; int ind = C_IND[el / 48];
    uint8_t tag = (sym < 7 ? sym : 7) << 5 | (ref < 31 ? ref : 31);
    if (tag == 0) { sym = 1; tag = 1 << 5; } /* tag 0 is the end marker; use a 1-byte literal instead */
    *p++ = tag;
    if (sym >= 7) p += put_uint (p, sym);
    for (uint32_t i = 0; i < sym; i++) *p++ = 'x';
    cur_ind += sym;
    if (ref) {
      if (ref >= 31) p += put_uint (p, ref);
      uint32_t ri = ind == -1 ? cur_ind : ind == -2 ? cur_ind + 1 : (uint32_t) ind;
      p += put_uint (p, ri); cur_ind++;
    }
    if (desc && k < dn) k += snprintf (desc + k, dn - k, " el(sym=%u,ref=%#x,ind=%d)", sym, ref, ind);
  }
  *p++ = 0; for (int i = 0; i < 8; i++) *p++ = 0x5a; /* end marker + (almost surely wrong) hash */
  *out = s; return p - s;
}

void drv_describe (uint64_t idx, char *buf, size_t n) {
  if (idx < n_small) {
    uint8_t s[32]; int fam; size_t len = gen_small (idx, s, &fam); char t[40];
    for (size_t i = 0; i < len; i++) t[i] = s[i] == 0 ? '0' : s[i] == 0xff ? 'F' : s[i]; t[len] = 0;
    snprintf (buf, n, "C12 small k=%d input=\"%s\"", SF[fam].k, t);
  } else if (idx < n_small + n_bc) {
    bcase *b = &BC[idx - n_small]; snprintf (buf, n, "C12 boundary gen=%d p1=%u p2=%u faults=%d", b->gen, b->p1, b->p2, b->faults);
  } else { uint8_t *s; char d[400]; gen_crafted (idx - n_small - n_bc, &s, d, sizeof d); free (s); snprintf (buf, n, "C12 crafted %s", d); }
}

static uint8_t *mut; static size_t mut_cap;
/* map every byte of a valid encoding to the field it belongs to (for failure descriptors) */
static char *field_map; static size_t field_cap;
static size_t uint_len (uint8_t tag) { int n; for (n = 1; n <= 4 && (tag >> (8 - n)) != 1; n++); return n; }
static void map_fields (const uint8_t *e, size_t en) {
  if (field_cap < en + 1) { field_cap = en * 2 + 16; field_map = realloc (field_map, field_cap); }
  memset (field_map, '?', en); size_t p = 0;
  for (; p < 3 && p < en; p++) field_map[p] = 'M';
  while (p < en) {
    uint8_t tag = e[p];
    if (tag == 0) { field_map[p++] = 'E'; for (int i = 0; i < 8 && p < en; i++) field_map[p++] = 'H'; break; }
    field_map[p++] = 'T';
    uint32_t sl = tag >> 5, rl = tag & 31;
    if (sl == 7) { size_t n = uint_len (e[p]); uint32_t v = e[p] & (0xff >> n); for (size_t i = 1; i < n; i++) v = v * 256 + e[p + i]; for (size_t i = 0; i < n; i++) field_map[p++] = 's'; sl = v; }
    for (uint32_t i = 0; i < sl && p < en; i++) field_map[p++] = 'L';
    if (rl) {
      if (rl == 31) { size_t n = uint_len (e[p]); for (size_t i = 0; i < n; i++) field_map[p++] = 'r'; }
      size_t n = uint_len (e[p]); for (size_t i = 0; i < n && p < en; i++) field_map[p++] = 'I';
    }
  }
}
static const char *field_name (size_t pos, size_t en) {
  if (pos >= en) return "past-end";
  switch (field_map[pos]) { case 'M': return "magic"; case 'T': return "tag"; case 's': return "symlen"; case 'L': return "literal"; case 'r': return "reflen"; case 'I': return "refindex"; case 'E': return "endmark"; case 'H': return "hash"; default: return "unknown"; }
}
static size_t cur_en;
static uint64_t n_dec;
/* decode a damaged stream and judge it */
static void judge_fault (const char *what, size_t pos, int val, const uint8_t *m, size_t mn, const uint8_t *orig, size_t on) {
  size_t dn; int oob, ok = do_decode (m, mn, &dn, &oob);
  n_dec++;
  if (oob) { vp_fail ("oob-access", "fault=%s field=%s pos=%zu val=%#x: decoder touched memory outside its block (%s, addr %p)", what, field_name (pos, cur_en), pos, val, oob == 2 ? "tail canary overwritten" : "fault", fault_addr); return; }
  if (ok) {
    if (dn == on && memcmp (dec_buf, orig, on) == 0) vp_fail ("accepted-equivalent", "fault=%s field=%s pos=%zu val=%#x: damaged stream accepted (decodes to the identical bytes)", what, field_name (pos, cur_en), pos, val);
    else vp_fail ("accepted-different", "fault=%s field=%s pos=%zu val=%#x: damaged stream accepted and decodes to DIFFERENT bytes (len %zu vs %zu)", what, field_name (pos, cur_en), pos, val, dn, on);
  }
}
static void faults (const uint8_t *orig, size_t on, size_t en, int all_values) {
  if (mut_cap < en + 2) { mut_cap = en * 2 + 16; mut = realloc (mut, mut_cap); }
  uint8_t *e = malloc (en + 1); memcpy (e, enc_buf, en);
  map_fields (e, en); cur_en = en;
  for (size_t t = 0; t < en; t++) judge_fault ("truncate", t, 0, e, t, orig, on);
  memcpy (mut, e, en);
  for (int v = 0; v < 256; v += all_values ? 1 : 51) { mut[en] = v; judge_fault ("extend", en, v, mut, en + 1, orig, on); }
  for (size_t p = 0; p < en; p++) {
    uint8_t o = e[p];
    if (all_values) { for (int v = 0; v < 256; v++) if (v != o) { mut[p] = v; judge_fault ("subst", p, v, mut, en, orig, on); } }
    else { int vs[] = {o ^ 1, o ^ 0x80, o ^ 0x20, 0x00, 0xff, (uint8_t) (o + 1), (uint8_t) (o - 1)}; for (int i = 0; i < 7; i++) if (vs[i] != o) { mut[p] = vs[i]; judge_fault ("subst", p, vs[i], mut, en, orig, on); } }
    mut[p] = o;
  }
  free (e);
}
static void roundtrip (const uint8_t *s, size_t n, int do_faults, int all_values) {
  int ok, oob; size_t en = do_encode (s, n, &ok), dn;
  if (!ok) { vp_fail ("encode-failed", "encoder reported failure"); return; }
  vp_outcome (vp_hash_bytes (1, enc_buf, en));
  if (en < n) vp_nontrivial (); /* at least one back reference was emitted */
  int dok = do_decode (enc_buf, en, &dn, &oob); n_dec++;
  if (oob) vp_fail ("oob-access", "decoder touched memory outside its block on a valid stream");
  else if (!dok) vp_fail ("roundtrip-rejected", "decoder rejects the encoder's own output (len %zu -> %zu)", n, en);
  else if (dn != n || memcmp (dec_buf, s, n) != 0) vp_fail ("roundtrip-differs", "decoded bytes differ from the input (len %zu, decoded %zu)", n, dn);
  if (do_faults) faults (s, n, en, all_values);
}
void drv_case (uint64_t idx) {
  uint64_t d0 = n_dec;
  if (idx < n_small) {
    uint8_t s[32]; int fam; size_t len = gen_small (idx, s, &fam);
    roundtrip (s, len, (int) len <= SF[fam].fault_maxlen, 1);
    vp_count ("small_roundtrips", 1);
  } else if (idx < n_small + n_bc) {
    bcase *b = &BC[idx - n_small]; uint8_t *s; size_t n = gen_boundary (b, &s);
    int ok; size_t en = do_encode (s, n, &ok);
    roundtrip (s, n, b->faults && !PLAIN_ALLOC && en <= 20000, thorough_g && en <= 3000);
    vp_count ("boundary_roundtrips", 1); vp_nontrivial ();
    vp_sample ("boundary gen=%d p1=%u p2=%u: %zu bytes -> %zu encoded", b->gen, b->p1, b->p2, n, en);
    free (s);
  } else {
    uint8_t *s; size_t n = gen_crafted (idx - n_small - n_bc, &s, NULL, 0), dn; int oob;
    int ok = do_decode (s, n, &dn, &oob); n_dec++;
    if (oob) vp_fail ("oob-access", "crafted stream makes the decoder touch memory outside its block (%s, addr %p)", oob == 2 ? "tail canary" : "fault", fault_addr);
    else if (ok) vp_fail ("accepted-crafted", "crafted stream with a wrong hash accepted");
    vp_count ("crafted_streams", 1); vp_nontrivial ();
    free (s);
  }
  vp_count ("decoder_runs", n_dec - d0);
}
