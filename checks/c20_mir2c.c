/* C20: the C code emitted by MIR_module2c computes what the module computes.
   Case = one complete program of the C01 families (checks/progfam.h) or of the C20-specific families below (data sections, fp constants).
   Cases are handled in batches: a forked child translates every program of the batch with the real MIR_module2c (a hang or crash of the
   translator is attributed to the program being translated), the batch is compiled by gcc into a shared object (a translation the compiler
   rejects is attributed through #line markers and the batch rebuilt without it), and every program is then run on its whole input grid
   through MIR_interp and through the compiled translation: result, harness memory and external-call log must agree.
   (program,input) pairs on which refinterp meets behaviour MIR.md leaves unspecified are skipped.  DESIGN.md §3 C20. */
#define _GNU_SOURCE
#include "vp.h"
#include "mirh.h"
#include "progfam.h"
#include "mir2c/mir2c.h"
#include <stdlib.h>
#include <unistd.h>
#include <signal.h>
#include <setjmp.h>
#include <poll.h>
#include <dlfcn.h>
#include <errno.h>
#include <sys/wait.h>
#include <sys/stat.h>
#include <fcntl.h>
#include <sys/time.h>

extern uint64_t vp_shard, vp_nshards;
static void install_fault_handlers (void);

/* =============================== C20 families =============================== */
/* FD: data sections.  A section is a named item followed by up to two unnamed continuation items; f sums the bytes of the section
   (address taken by name) and of a second, separately named item behind it. */
static const char *FD_ITEMS[] = {"i64 1, -2, 3", "i32 100000, -7", "u8 1, 2, 3", "i16 -300", "u16 65535, 1", "d 1.5, -0.1", "f 0.25f", "ld 2.5L", "bss 5", "bss 16", "ref tail, 3", "string \"ab\"", "i8 -1", "u64 18446744073709551615", "p 4096"};
static const int FD_SIZE[] = {24, 8, 3, 2, 4, 16, 4, 16, 5, 16, 8, 3, 1, 8, 8};
#define NFD 15
static uint64_t fd_count (int th) { return NFD + NFD * NFD + (th ? NFD * NFD * NFD : NFD * NFD * 3); }
static int fd_items (uint64_t idx, int *it) {
  if (idx < NFD) { it[0] = idx; return 1; }
  idx -= NFD; if (idx < NFD * NFD) { it[0] = idx / NFD; it[1] = idx % NFD; return 2; }
  idx -= NFD * NFD; it[0] = idx / NFD % NFD; it[1] = idx % NFD; it[2] = progfam_thorough ? idx / NFD / NFD : (int) ((idx / NFD / NFD) * 5 + it[0] + it[1]) % NFD; return 3;
}
/* bytes of a section that are not determined by the module text: alignment padding between items, the 6 padding bytes of a long double, the address stored by ref */
static void fd_render (uint64_t idx) {
  int it[3], n = fd_items (idx, it);
  ptl = 0; S ("m: module\nexport f\nforward tail\n");
  for (int i = 0; i < n; i++) S ("%s%s\n", i == 0 ? "sec: " : "  ", FD_ITEMS[it[i]]);
  S ("tail: u8 9, 8, 7, 6\n");
  S ("f: func i64, i64:a, i64:b, p:m, p:q, d:x, d:y\n  local i64:r, i64:p0, i64:k, i64:t\n  mov r, 0\n  mov p0, sec\n");
  /* copy the determined bytes of each item to the output buffer m, item by item, addressing every item from the start of the section */
  int off = 0, out = 0;
  for (int i = 0; i < n; i++) {
    int k = it[i], sz = FD_SIZE[k], al = (k == 0 || k == 5 || k == 10 || k == 13 || k == 14) ? 8 : (k == 1 || k == 6) ? 4 : (k == 3 || k == 4) ? 2 : k == 7 ? 16 : 1;
    (void) al; /* MIR lays continuation items out back to back (no padding): offsets are plain sums */
    if (k == 10) { S ("  mov t, i64:%d(p0)\n  mov k, tail\n  sub t, t, k\n  mov i64:%d(m), t\n", off, out); out += 8; }  /* ref: store the difference to the referenced item */
    else for (int j = 0; j < (k == 7 ? 10 : sz); j++) { S ("  mov t, u8:%d(p0)\n  mov u8:%d(m), t\n", off + j, out); out++; }
    off += sz;
  }
  S ("  mov p0, tail\n  mov t, u8:2(p0)\n  add r, r, t\n  ret r\nendfunc\nendmodule\n");
}
static int one_input_n (uint64_t idx) { return 1; }
static pinput one_input (uint64_t idx, int i) { pinput p = {3, 4, -1, 1.0, 2.0}; return p; }

/* FC: constants.  Every fp / integer immediate of a boundary list is stored to the output buffer. */
static const char *FC_F[] = {"0.0f", "-0.0f", "1.5f", "0.1f", "3.40282347e+38f", "1.17549435e-38f", "1.40129846e-45f", "16777217.0f", "-2.5e-7f", "123456.789f"};
static const char *FC_D[] = {"0.0", "-0.0", "0.1", "1.7976931348623157e+308", "2.2250738585072014e-308", "4.9406564584124654e-324", "9007199254740993.0", "-1e-300", "3.141592653589793", "1e22"};
static const char *FC_L[] = {"0.0L", "-0.0L", "0.1L", "1.18973149535723176502e+4932L", "3.36210314311209350626e-4932L", "18446744073709551615.0L", "-2.5L", "1e-4000L", "3.14159265358979323851L", "1.0L"};
static const char *FC_I[] = {"0", "-1", "9223372036854775807", "-9223372036854775808", "18446744073709551615", "4294967296", "2147483648", "-2147483649", "255", "9223372036854775808"};
static uint64_t fc_count (int th) { return 10 * 4 * 3; }
static void fc_render (uint64_t idx) {
  int v = idx % 10, kind = idx / 10 % 4, form = idx / 40; /* form: 0 mov to reg then store, 1 store immediate to memory, 2 use as operand of an operation */
  ptl = 0; S ("m: module\nexport f\nf: func i64, i64:a, i64:b, p:m, p:q, d:x, d:y\n  local i64:r, f:f1, d:d1, ld:l1\n  mov r, 0\n");
  const char *c = kind == 0 ? FC_F[v] : kind == 1 ? FC_D[v] : kind == 2 ? FC_L[v] : FC_I[v];
  const char *mv = kind == 0 ? "fmov" : kind == 1 ? "dmov" : kind == 2 ? "ldmov" : "mov", *ty = kind == 0 ? "f" : kind == 1 ? "d" : kind == 2 ? "ld" : "i64", *rg = kind == 0 ? "f1" : kind == 1 ? "d1" : kind == 2 ? "l1" : "r";
  if (form == 0) S ("  %s %s, %s\n  %s %s:(m), %s\n", mv, rg, c, mv, ty, rg);
  else if (form == 1) S ("  %s %s:(m), %s\n", mv, ty, c);
  else if (kind == 3) S ("  xor r, a, %s\n  mov i64:(m), r\n  ult r, b, %s\n", c, c);
  else S ("  %s %s, %s\n  %s %s, %s, %s\n  %s %s:(m), %s\n", mv, rg, kind == 0 ? "2.0f" : kind == 1 ? "2.0" : "2.0L", kind == 0 ? "fmul" : kind == 1 ? "dmul" : "ldmul", rg, rg, c, mv, ty, rg);
  S ("  ret r\nendfunc\nendmodule\n");
}
static void fc_mask (uint64_t idx, uint8_t *m) { if (idx / 10 % 4 == 2) memset (m + 10, 0, 6); } /* padding of the stored long double */

/* FM: several functions, forward references, calls between them, string operands, ldmov and long double arithmetic through calls */
static uint64_t fm_count (int th) { return 6; }
static void fm_render (uint64_t idx) {
  ptl = 0; S ("m: module\nexport f\nimport e1, e2\np_e1: proto i64, i64:x\np_e2: proto i64, i64:x, i64:y\n");
  switch (idx) {
  case 0: S ("forward g\np_g: proto i64, i64:x\nf: func i64, i64:a, i64:b, p:m, p:q, d:x, d:y\n  local i64:r\n  call p_g, g, r, a\n  add r, r, b\n  ret r\nendfunc\ng: func i64, i64:x\n  local i64:r\n  mul r, x, 3\n  ret r\nendfunc\n"); break;
  case 1: S ("p_g: proto ld, ld:x, d:y\ng: func ld, ld:x, d:y\n  local ld:t\n  d2ld t, y\n  ldadd t, t, x\n  ret t\nendfunc\nf: func i64, i64:a, i64:b, p:m, p:q, d:x, d:y\n  local i64:r, ld:l1, ld:l2\n  i2ld l1, a\n  ldmov l2, l1\n  call p_g, g, l1, l2, x\n  ldmov ld:(m), l1\n  ld2i r, l1\n  ret r\nendfunc\n"); break;
  case 2: S ("p_s: proto i64, p:s\ng: func i64, p:s\n  local i64:r, i64:t\n  mov r, u8:(s)\n  mov t, u8:2(s)\n  add r, r, t\n  ret r\nendfunc\nf: func i64, i64:a, i64:b, p:m, p:q, d:x, d:y\n  local i64:r\n  call p_s, g, r, \"hello\"\n  ret r\nendfunc\n"); break;
  case 3: S ("p_v: proto i64:x\ng: func i64:x\n  local i64:t\n  call p_e1, e1, t, x\n  ret\nendfunc\nf: func i64, i64:a, i64:b, p:m, p:q, d:x, d:y\n  local i64:r\n  call p_v, g, a\n  call p_e2, e2, r, a, b\n  ret r\nendfunc\n"); break;
  case 4: S ("p_g: proto f, f:x\ng: func f, f:x\n  local f:t\n  fadd t, x, 0.5f\n  ret t\nendfunc\nf: func i64, i64:a, i64:b, p:m, p:q, d:x, d:y\n  local i64:r, f:f1\n  i2f f1, a\n  call p_g, g, f1, f1\n  fmov f:(m), f1\n  f2i r, f1\n  ret r\nendfunc\n"); break;
  default: S ("p_g: proto u8, i8:x, u16:y, i32:z\ng: func u8, i8:x, u16:y, i32:z\n  local i64:t\n  add t, x, y\n  add t, t, z\n  ret t\nendfunc\nf: func i64, i64:a, i64:b, p:m, p:q, d:x, d:y\n  local i64:r\n  call p_g, g, r, a, b, a\n  ret r\nendfunc\n"); break;
  }
  S ("endmodule\n");
}
static int fm_n (uint64_t idx) { return 9; }
static pinput fm_input (uint64_t idx, int i) { static const int64_t v[] = {0, 300, -70000}; pinput p = {v[i % 3], v[i / 3], -1, 0.75, 2.0}; return p; }

static const family EXTRA[] = {
  {"FD-data-sections", fd_count, fd_render, one_input_n, one_input},
  {"FC-constants", fc_count, fc_render, one_input_n, one_input, fc_mask},
  {"FM-multi-function", fm_count, fm_render, fm_n, fm_input},
};
#define NEXTRA 3
#define NALL (NFAM + NEXTRA)
static const family *FAM (int i) { return i < NEXTRA ? &EXTRA[i] : &FAMILIES[i - NEXTRA]; }
static int defined_by_construction (int i) { return i < NEXTRA; } /* refinterp does not model data sections: these programs avoid unspecified behaviour by construction */

static uint64_t fam_first[NALL + 1]; static int fam_lo = 0, fam_hi = NALL; static int ord[NALL], n_ord;
static char workdir[300] = "/tmp"; static int opt_levels[4], n_opts; static uint64_t batch_size = 300;

void drv_init (int thorough) {
  progfam_thorough = thorough; install_fault_handlers ();
  const char *fs = getenv ("VP_FAMILIES"); if (fs) sscanf (fs, "%d:%d", &fam_lo, &fam_hi);
  const char *wd = getenv ("VP_C20_DIR"); if (wd) snprintf (workdir, sizeof workdir, "%s", wd);
  const char *ol = getenv ("VP_C20_OPT"); if (!ol) ol = "1";
  for (const char *p = ol; *p && n_opts < 4; p++) if (*p >= '0' && *p <= '3') opt_levels[n_opts++] = *p - '0';
  const char *bs = getenv ("VP_C20_BATCH"); if (bs) batch_size = strtoull (bs, NULL, 10);
  /* variables tied to hard registers have no C counterpart in the translator and are not in the property's program class: that family is left out.
     Families are enumerated smallest first, so that a deadline (thorough tier) cuts only the largest ones */
  n_ord = 0; for (int i = fam_lo; i < fam_hi; i++) ord[n_ord++] = i;
#define FCOUNT(i) (strstr (FAM (i)->name, "hard-register") ? 0 : FAM (i)->count (thorough))
  for (int i = 1; i < n_ord; i++) for (int j = i; j > 0 && FCOUNT (ord[j]) < FCOUNT (ord[j - 1]); j--) { int t = ord[j]; ord[j] = ord[j - 1]; ord[j - 1] = t; }
  fam_first[0] = 0;
  for (int i = 0; i < n_ord; i++) fam_first[i + 1] = fam_first[i] + FCOUNT (ord[i]);
}
uint64_t drv_ncases (void) { return fam_first[n_ord]; }
static const family *locate (uint64_t idx, uint64_t *local, int *fi) {
  for (int i = 0; i < n_ord; i++) if (idx < fam_first[i + 1]) { *local = idx - fam_first[i]; if (fi) *fi = ord[i]; return FAM (ord[i]); }
  return NULL;
}
void drv_describe (uint64_t idx, char *buf, size_t n) {
  uint64_t l; const family *f = locate (idx, &l, NULL); f3_features = 0; f->render (l);
  const char *body = strstr (PT, "f: func"); if (strstr (PT, "sec:")) body = strstr (PT, "sec:"); char flat[1500]; size_t k = 0;
  for (const char *p = body ? body : PT; *p && k + 2 < sizeof flat; p++) flat[k++] = *p == '\n' ? ';' : *p;
  flat[k] = 0;
  snprintf (buf, n, "C20 family=%s idx=%llu prog={%s}", f->name, (unsigned long long) l, flat);
}

/* =============================== batches =============================== */
enum { B_OK = 0, B_HANG, B_CRASH, B_REJECTED, B_MIRERR, B_SCANERR };
typedef struct { uint64_t idx; int state; char msg[400]; char *text; /* renamed translation */ } bent;
static bent *B; static size_t nB; static void *so[4]; static int batch_no;

static void batch_free (void) {
  for (size_t i = 0; i < nB; i++) free (B[i].text);
  free (B); B = NULL; nB = 0;
  for (int i = 0; i < 4; i++) if (so[i]) { dlclose (so[i]); so[i] = NULL; }
}
static bent *batch_find (uint64_t idx) { for (size_t i = 0; i < nB; i++) if (B[i].idx == idx) return &B[i]; return NULL; }

/* child: translate B[from..] one by one; protocol on fd: "S <k>\n" before a case, then either "E <k> <state> <msg>\n" or "T <k> <len>\n<bytes>" */
static char tbuf[1 << 20];
static void child_translate (size_t from, int fd) {
  FILE *out = fdopen (fd, "w");
  for (size_t k = from; k < nB; k++) {
    fprintf (out, "S %zu\n", k); fflush (out);
    uint64_t l; const family *fam = locate (B[k].idx, &l, NULL); f3_features = 0; fam->render (l);
    mh_ctx mc; mh_open (&mc);
    if (mh_scan (&mc, PT) != 0) { fprintf (out, "E %zu %d %s\n", k, B_SCANERR, mc.errmsg); fflush (out); mh_close (&mc); continue; }
    MIR_module_t m = DLIST_TAIL (MIR_module_t, *MIR_get_module_list (mc.ctx));
    memset (tbuf, 0, 64);
    FILE *f = fmemopen (tbuf, sizeof tbuf - 1, "w"); setvbuf (f, NULL, _IONBF, 0);
    mh_cur = &mc; mh_arm (1);
    if (setjmp (mh_err_jb) == 0) { MIR_module2c (mc.ctx, f, m); mh_arm (0); }
    else { mh_arm (0); fclose (f); fprintf (out, "E %zu %d %s\n", k, B_MIRERR, mc.errmsg); fflush (out); mh_close (&mc); continue; }
    long len = ftell (f); fclose (f); if (len < 0) len = 0; tbuf[len] = 0;
    /* rename every definition of the module so that many translations fit in one translation unit */
    char *txt = NULL; size_t tl = 0; FILE *t = open_memstream (&txt, &tl);
    for (MIR_item_t it = DLIST_HEAD (MIR_item_t, m->items); it; it = DLIST_NEXT (MIR_item_t, it)) {
      const char *nm = MIR_item_name (mc.ctx, it);
      if (nm && it->item_type != MIR_import_item && it->item_type != MIR_export_item && it->item_type != MIR_forward_item) fprintf (t, "#define %s %s__%llu\n", nm, nm, (unsigned long long) B[k].idx);
    }
    fprintf (t, "#line 1 \"case_%zu\"\n%s\nvoid *entry__%llu = (void *) &f; /* the entry function may be static */\n", k, tbuf, (unsigned long long) B[k].idx);
    for (MIR_item_t it = DLIST_HEAD (MIR_item_t, m->items); it; it = DLIST_NEXT (MIR_item_t, it)) {
      const char *nm = MIR_item_name (mc.ctx, it);
      if (nm && it->item_type != MIR_import_item && it->item_type != MIR_export_item && it->item_type != MIR_forward_item) fprintf (t, "#undef %s\n", nm);
    }
    fclose (t);
    fprintf (out, "T %zu %zu\n", k, tl); fwrite (txt, 1, tl, out); fflush (out); free (txt);
    /* the translator marks forward items as processed by writing into the module: the context is thrown away without MIR_finish checks */
    mc.err = 1; mh_close (&mc);
  }
  fflush (out); _exit (0);
}

static int read_line (int fd, char *buf, size_t n, int timeout_ms) { /* 1 line, 0 eof, -1 timeout */
  size_t k = 0;
  for (;;) {
    struct pollfd p = {fd, POLLIN, 0}; int r = poll (&p, 1, timeout_ms);
    if (r == 0) return -1;
    if (r < 0) { if (errno == EINTR) continue; return 0; }
    char c; ssize_t got = read (fd, &c, 1);
    if (got <= 0) return 0;
    if (c == '\n' || k + 1 >= n) { buf[k] = 0; return 1; }
    buf[k++] = c;
  }
}
static int read_bytes (int fd, char *buf, size_t n, int timeout_ms) {
  size_t k = 0;
  while (k < n) {
    struct pollfd p = {fd, POLLIN, 0}; int r = poll (&p, 1, timeout_ms);
    if (r == 0) return -1;
    if (r < 0) { if (errno == EINTR) continue; return 0; }
    ssize_t got = read (fd, buf + k, n - k); if (got <= 0) return 0; k += got;
  }
  return 1;
}

static void translate_batch (void) {
  size_t from = 0;
  while (from < nB) {
    int pfd[2]; if (pipe (pfd)) { perror ("pipe"); exit (3); }
    pid_t pid = fork ();
    if (pid == 0) { close (pfd[0]); signal (SIGALRM, SIG_DFL); alarm (0); struct itimerval z = {{0, 0}, {0, 0}}; setitimer (ITIMER_REAL, &z, NULL); child_translate (from, pfd[1]); }
    close (pfd[1]);
    size_t cur = from; int started = 0, bad = 0; char line[600];
    for (;;) {
      int r = read_line (pfd[0], line, sizeof line, 2000);
      if (r == 1) {
        size_t k; int st; unsigned long len;
        if (sscanf (line, "S %zu", &k) == 1 && line[0] == 'S') { cur = k; started = 1; }
        else if (line[0] == 'E' && sscanf (line, "E %zu %d", &k, &st) == 2) { B[k].state = st; const char *m = strchr (line + 2, ' '); m = m ? strchr (m + 1, ' ') : NULL; snprintf (B[k].msg, sizeof B[k].msg, "%s", m ? m + 1 : ""); started = 0; from = k + 1; }
        else if (line[0] == 'T' && sscanf (line, "T %zu %lu", &k, &len) == 2) {
          B[k].text = malloc (len + 1);
          int rr = read_bytes (pfd[0], B[k].text, len, 2000);
          if (rr != 1) { free (B[k].text); B[k].text = NULL; bad = rr == -1 ? B_HANG : B_CRASH; break; }
          B[k].text[len] = 0; started = 0; from = k + 1;
        }
        continue;
      }
      if (r == -1) { bad = B_HANG; break; }
      break; /* eof */
    }
    int status = 0;
    if (bad == B_HANG) { kill (pid, SIGKILL); }
    waitpid (pid, &status, 0); close (pfd[0]);
    if (bad == B_HANG) { B[cur].state = B_HANG; snprintf (B[cur].msg, sizeof B[cur].msg, "MIR_module2c made no progress for 2 s"); from = cur + 1; continue; }
    if (WIFSIGNALED (status) || (WIFEXITED (status) && WEXITSTATUS (status) != 0) || bad == B_CRASH) {
      if (!started && from >= nB) break;
      B[cur].state = B_CRASH; snprintf (B[cur].msg, sizeof B[cur].msg, "MIR_module2c died: %s %d", WIFSIGNALED (status) ? "signal" : "exit status", WIFSIGNALED (status) ? WTERMSIG (status) : WEXITSTATUS (status));
      from = cur + 1; continue;
    }
    break;
  }
}

static int run_gcc (const char *cfile, const char *sofile, const char *errfile, int opt) {
  char o[8]; snprintf (o, sizeof o, "-O%d", opt < 0 ? 0 : opt);
  const char *argv[64]; int n = 0; static char ds[20][80]; int nd = 0;
  argv[n++] = "gcc"; argv[n++] = o; argv[n++] = "-w"; argv[n++] = "-fwrapv"; argv[n++] = "-fno-strict-aliasing";
  if (opt < 0) argv[n++] = "-fsyntax-only"; else { argv[n++] = "-shared"; argv[n++] = "-fPIC"; argv[n++] = "-o"; argv[n++] = sofile; }
  argv[n++] = cfile;
  for (int i = 0; opt >= 0 && i < mh_n_exts && nd < 20; i++) { snprintf (ds[nd], sizeof ds[nd], "-Wl,--defsym,\"%s\"=%p", mh_exts[i].name, mh_exts[i].addr); argv[n++] = ds[nd++]; }
  argv[n] = NULL;
  pid_t pid = fork ();
  if (pid == 0) {
    int fd = open (errfile, O_WRONLY | O_CREAT | O_TRUNC, 0644); dup2 (fd, 2); dup2 (fd, 1);
    struct itimerval z = {{0, 0}, {0, 0}}; setitimer (ITIMER_REAL, &z, NULL);
    execvp ("gcc", (char *const *) argv); _exit (127);
  }
  int status; waitpid (pid, &status, 0);
  return WIFEXITED (status) && WEXITSTATUS (status) == 0 ? 0 : -1;
}

static void compile_batch (void) {
  char cfile[400], sofile[400], errfile[400];
  snprintf (cfile, sizeof cfile, "%s/c20_%d_%d.c", workdir, (int) getpid (), batch_no); snprintf (errfile, sizeof errfile, "%s/c20_%d_%d.err", workdir, (int) getpid (), batch_no);
  for (size_t attempt = 0; attempt < nB + 2; attempt++) {
    FILE *f = fopen (cfile, "w"); if (!f) { perror (cfile); exit (3); }
    fprintf (f, "#include <stdint.h>\n#include <stdarg.h>\n#include <alloca.h>\n");
    for (size_t k = 0; k < nB; k++) if (B[k].state == B_OK && B[k].text) fputs (B[k].text, f);
    fclose (f);
    int ok = 1;
    for (int oi = 0; oi < n_opts && ok; oi++) {
      snprintf (sofile, sizeof sofile, "%s/c20_%d_%d_O%d.so", workdir, (int) getpid (), batch_no, opt_levels[oi]);
      if (run_gcc (cfile, sofile, errfile, opt_levels[oi]) != 0) ok = 0;
    }
    if (ok) break;
    /* the compiler's errors name candidate cases through the #line markers; a candidate is rejected only if its translation fails to compile on its own */
    FILE *e = fopen (errfile, "r"); char line[1000]; int marked = 0; char *cand = calloc (nB, 1);
    while (e && fgets (line, sizeof line, e)) {
      size_t k; const char *p = strstr (line, "case_"); if (!p || !strstr (line, "error")) continue;
      if (sscanf (p, "case_%zu", &k) == 1 && k < nB && B[k].state == B_OK) cand[k] = 1;
    }
    if (e) fclose (e);
    for (int pass = 0; pass < 2 && !marked; pass++)
      for (size_t k = 0; k < nB; k++) if (B[k].state == B_OK && B[k].text && (cand[k] || pass == 1)) {
        char one[400], oerr[400]; snprintf (one, sizeof one, "%s/c20_%d_one.c", workdir, (int) getpid ()); snprintf (oerr, sizeof oerr, "%s/c20_%d_one.err", workdir, (int) getpid ());
        FILE *o = fopen (one, "w"); fprintf (o, "#include <stdint.h>\n#include <stdarg.h>\n#include <alloca.h>\n%s", B[k].text); fclose (o);
        if (run_gcc (one, "/dev/null", oerr, -1) != 0) {
          B[k].state = B_REJECTED; marked++; snprintf (B[k].msg, sizeof B[k].msg, "gcc does not accept the translation");
          FILE *oe = fopen (oerr, "r"); while (oe && fgets (line, sizeof line, oe)) if (strstr (line, "error")) { line[strcspn (line, "\n")] = 0; const char *p = strstr (line, "case_"); snprintf (B[k].msg, sizeof B[k].msg, "%.380s", p ? p : line); break; }
          if (oe) fclose (oe);
        }
        unlink (one); unlink (oerr);
      }
    free (cand);
    if (!marked) { /* the batch fails although every translation compiles alone: not attributable, give up loudly */
      fprintf (stderr, "C20: gcc failed on %s and the failure is not attributable; see %s\n", cfile, errfile); exit (3);
    }
  }
  for (int oi = 0; oi < n_opts; oi++) {
    snprintf (sofile, sizeof sofile, "%s/c20_%d_%d_O%d.so", workdir, (int) getpid (), batch_no, opt_levels[oi]);
    so[oi] = dlopen (sofile, RTLD_NOW | RTLD_LOCAL);
    if (!so[oi]) { fprintf (stderr, "C20: dlopen %s: %s\n", sofile, dlerror ()); exit (3); }
    unlink (sofile);
  }
  if (!getenv ("VP_C20_KEEP")) unlink (cfile);
  unlink (errfile);
}

static void build_batch (uint64_t first) {
  batch_free (); batch_no++;
  struct itimerval saved, off = {{0, 0}, {0, 0}}; setitimer (ITIMER_REAL, &off, &saved); /* the per-case watchdog of vp.c does not cover batch preparation (own timeouts) */
  uint64_t n = drv_ncases (), step = vp_nshards ? vp_nshards : 1, cnt = vp_verbose ? 1 : batch_size;
  B = calloc (cnt, sizeof (bent));
  for (uint64_t i = first; i < n && nB < cnt; i += step) B[nB++].idx = i;
  translate_batch ();
  compile_batch ();
  setitimer (ITIMER_REAL, &saved, NULL);
}

/* =============================== one case =============================== */
typedef struct { int st; int low32; int misal; int64_t ret; uint64_t mem, log; int nlog; } obs;
#define MAXIN 128
static obs REF[MAXIN];
static uint8_t snap[2][MH_BUF], gsnap[MH_BUF];
static void set_input (pinput in, mh_args *a) {
  memset (a, 0, sizeof *a); mh_mem_reset (); mh_log_reset ();
  a->ni = 4; a->i[0] = in.a; a->i[1] = in.b; a->i[2] = (int64_t) (intptr_t) mh_buf[0];
  a->i[3] = in.qk < 0 ? (int64_t) (intptr_t) mh_buf[1] : (int64_t) (intptr_t) (mh_buf[0] + in.qk);
  a->nd = 2; a->d[0] = in.x; a->d[1] = in.y;
}
static uint64_t mem_obs (const family *f, uint64_t l) {
  memcpy (snap, mh_buf, sizeof snap); memcpy (gsnap, mh_gbuf, sizeof gsnap);
  if (f->mask) f->mask (l, snap[0]);
  uint64_t h = vp_hash_bytes (5, snap, sizeof snap); return vp_hash_bytes (h, gsnap, sizeof gsnap);
}
typedef int64_t (*cfun) (int64_t, int64_t, void *, void *, double, double);
/* a fault inside the compiled translation is a verdict about the translation, not about the harness: it is caught here so that the batch survives */
static sigjmp_buf fault_jb; static volatile int fault_armed, fault_sig;
static void on_fault (int sig) { if (!fault_armed) { signal (sig, SIG_DFL); raise (sig); return; } fault_sig = sig; fault_armed = 0; siglongjmp (fault_jb, 1); }
static void install_fault_handlers (void) {
  static char alt[1 << 16]; stack_t ss = {alt, 0, sizeof alt}; sigaltstack (&ss, NULL);
  struct sigaction sa; memset (&sa, 0, sizeof sa); sa.sa_handler = on_fault; sa.sa_flags = SA_ONSTACK | SA_NODEFER; sigemptyset (&sa.sa_mask);
  sigaction (SIGSEGV, &sa, NULL); sigaction (SIGBUS, &sa, NULL); sigaction (SIGFPE, &sa, NULL); sigaction (SIGILL, &sa, NULL);
}

void drv_case (uint64_t idx) {
  bent *e = batch_find (idx);
  if (!e) { build_batch (idx); e = batch_find (idx); }
  uint64_t l; int fi; const family *fam = locate (idx, &l, &fi); f3_features = 0; fam->render (l);
  char key[60]; snprintf (key, sizeof key, "programs:%s", fam->name); vp_count (key, 1);
  if (e->state == B_MIRERR && (strstr (e->msg, "ultiple result") || strstr (e->msg, "multiple results"))) { vp_count ("multiple_result_modules_outside_property", 1); return; }
  if (e->state != B_OK) {
    static const char *K[] = {"", "translator-does-not-terminate", "translator-crash", "translation-rejected-by-C-compiler", "translator-mir-error", "harness-scan-error"};
    vp_fail (K[e->state], "%s", e->msg); return;
  }
  if (vp_verbose && e->text) fprintf (stderr, "%s\n", e->text);
  int nin = fam->ninputs (l); if (nin > MAXIN) nin = MAXIN;
  mh_ctx mc; mh_open (&mc);
  if (mh_scan (&mc, PT) != 0) { vp_fail ("harness-scan-error", "%s", mc.errmsg); mh_close (&mc); return; }
  MIR_item_t f = mh_find_func (&mc, "f"); int ok = 0;
  for (int i = 0; i < nin; i++) {
    if (defined_by_construction (fi)) { REF[i].st = RI_OK; REF[i].low32 = 0; REF[i].misal = 0; ok++; continue; }
    mh_args a; ri_ctx ri; ri_val res[2]; set_input (fam->input (l, i), &a);
    ri_init (&ri, mc.ctx, mh_exts, mh_n_exts, 20000); memset (res, 0, sizeof res);
    REF[i].st = mh_ref_call (&ri, f, &a, res); REF[i].low32 = res[0].taint; REF[i].misal = ri.misaligned != 0;
    if (REF[i].st == RI_UNSUPPORTED || REF[i].st == RI_BAD) { vp_fail ("harness-refinterp", "reference interpreter cannot run the program: %s", ri.why); ri_finish (&ri); mh_close (&mc); return; }
    if (REF[i].st == RI_OK) ok++;
    ri_finish (&ri);
  }
  if (!ok) { vp_count ("programs_undefined_on_every_input", 1); mh_close (&mc); return; }
  if (mh_link (&mc, E_INTERP) != 0) { vp_fail ("mir-error", "link for the interpreter: %s", mc.errmsg); mh_close (&mc); return; }
  char sym[80]; snprintf (sym, sizeof sym, "entry__%llu", (unsigned long long) idx);
  uint64_t compared = 0, skipped = 0, misal_skipped = 0, beh = 7;
  for (int i = 0; i < nin; i++) {
    if (REF[i].st != RI_OK) { skipped++; continue; }
    mh_args a; MIR_val_t res[2]; obs want, got; pinput in = fam->input (l, i); set_input (in, &a); memset (res, 0, sizeof res);
    if (mh_call (&mc, f, &a, res) != 0) { vp_fail ("mir-error", "interpreter: %s", mc.errmsg); mh_close (&mc); return; }
    want.ret = res[0].i; want.mem = mem_obs (fam, l); want.log = mh_log_hash (); want.nlog = mh_log_n;
    beh = vp_hash_u64 (beh, (uint64_t) (REF[i].low32 ? (uint32_t) want.ret : want.ret)); beh = vp_hash_u64 (beh, want.mem); beh = vp_hash_u64 (beh, want.log);
    for (int oi = 0; oi < n_opts; oi++) {
      /* a misaligned access is defined by the MIR engines on x86-64 but undefined in the C translation (*(int64_t *) addr):
         gcc -O2 forwards stores and analyses loop dependences on the assumption of natural alignment.  Such pairs are
         compared at -O0/-O1 only, where gcc emits the plain machine access.  DESIGN.md §9. */
      if (REF[i].misal && opt_levels[oi] >= 2) { misal_skipped++; continue; }
      void **ep = (void **) dlsym (so[oi], sym); cfun cf = ep ? (cfun) *ep : NULL;
      if (!cf) { vp_fail ("translation-lacks-function", "the compiled translation does not define %s", sym); mh_close (&mc); goto out; }
      set_input (in, &a);
      if (sigsetjmp (fault_jb, 1) == 0) { fault_armed = 1; got.ret = cf (a.i[0], a.i[1], (void *) (intptr_t) a.i[2], (void *) (intptr_t) a.i[3], a.d[0], a.d[1]); fault_armed = 0; }
      else {
        vp_fail ("translation-faults", "gcc -O%d input=(a=%lld,b=%lld,qk=%d,x=%g,y=%g): the compiled translation died with signal %d; the interpreter returned %#llx", opt_levels[oi], (long long) in.a, (long long) in.b, in.qk, in.x, in.y, fault_sig, (unsigned long long) want.ret);
        mh_close (&mc); goto out;
      }
      got.mem = mem_obs (fam, l); got.log = mh_log_hash (); got.nlog = mh_log_n;
      compared++;
      int same = (REF[i].low32 ? (uint32_t) want.ret == (uint32_t) got.ret : want.ret == got.ret) && want.mem == got.mem && want.log == got.log;
      if (!same) {
        vp_fail ("translation-differs-from-interp", "gcc -O%d input=(a=%lld,b=%lld,qk=%d,x=%g,y=%g): ret %#llx vs interp %#llx%s; memory %s; external calls %s (%d vs %d)", opt_levels[oi], (long long) in.a, (long long) in.b, in.qk, in.x, in.y,
                 (unsigned long long) got.ret, (unsigned long long) want.ret, REF[i].low32 ? " (low 32 bits compared)" : "", got.mem == want.mem ? "equal" : "DIFFERENT", got.log == want.log ? "equal" : "DIFFERENT", got.nlog, want.nlog);
        mh_close (&mc); goto out;
      }
    }
  }
  mh_close (&mc);
out:
  vp_count ("evaluations", compared); vp_count ("unspecified_skipped", skipped); vp_count ("misaligned_not_compared_at_O2", misal_skipped); vp_outcome (beh);
  if (compared) vp_nontrivial ();
  if (l == 0 || l % 50021 == 7) { char d[1600]; drv_describe (idx, d, sizeof d); vp_sample ("%s", d); }
}
