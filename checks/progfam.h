/* progfam.h - MIR program families: complete enumerations over small alphabets (DESIGN.md §3 C01 table).
   Every program is a module "m" with   f: func i64, i64:a, i64:b, p:m, p:q, d:x, d:y
   A family maps an index to program text; index<->program is a bijection inside the family. */
#ifndef PROGFAM_H
#define PROGFAM_H
#include <stdio.h>
#include <stdarg.h>
#include <string.h>
#include <stdint.h>
#include <math.h>

static char PT[65536]; static size_t ptl;
static void S (const char *fmt, ...) { va_list ap; va_start (ap, fmt); ptl += vsnprintf (PT + ptl, sizeof PT - ptl, fmt, ap); va_end (ap); if (ptl >= sizeof PT) ptl = sizeof PT - 1; }
static const char *PRELUDE
  = "m: module\nimport e0, e1, e2, ev, ed, emem, e6, e10, edd, eid, e32, eu8, gbuf\n"
    "p_e0: proto i64\np_e1: proto i64, i64:x\np_e2: proto i64, i64:x, i64:y\np_ev: proto i64:x\np_ed: proto d, d:x\np_emem: proto i64, p:x\n"
    "p_e6: proto i64, i64:a, i64:b, i64:c, i64:d, i64:e, i64:f\np_e10: proto i64, i64:a, i64:b, i64:c, i64:d, i64:e, i64:f, i64:g, i64:h, i64:i, i64:j\n"
    "p_edd: proto d, d:x, d:y\np_eid: proto i64, i64:x, d:y\np_e32: proto i32, i32:x\np_eu8: proto u8, u8:x\n";
static void begin_func (const char *locals) {
  ptl = 0; S ("%sf: func i64, i64:a, i64:b, p:m, p:q, d:x, d:y\n  local i64:r, i64:r0, i64:r1, i64:r2, i64:k%s%s\n", PRELUDE, locals[0] ? ", " : "", locals);
}
static void end_func (void) { S ("endfunc\nendmodule\n"); }

/* ---------------- inputs ---------------- */
typedef struct { int64_t a, b; int qk; /* q = m + qk, or buffer 1 if qk < 0 */ double x, y; } pinput;
static const int64_t GRID_I[] = {0, 1, -1, 2, -3, -7, 0x7fffffffll, -0x80000000ll, 0x100000000ll, INT64_MAX, INT64_MIN};
#define NGI 11
static const double GRID_D[] = {0.0, 1.0, -1.5, 0.1, 1e300, -0.0, INFINITY, NAN, 16777217.0, 3.0};
#define NGD 10

typedef struct family {
  const char *name;
  uint64_t (*count) (int thorough);
  void (*render) (uint64_t idx);               /* -> PT */
  int (*ninputs) (uint64_t idx);
  pinput (*input) (uint64_t idx, int i);
  void (*mask) (uint64_t idx, uint8_t *m); /* optional: neutralise bytes whose value is unspecified (ld padding, NaN payloads) */
} family;

static int in_intgrid_n (uint64_t idx) { return NGI * NGI; }
static pinput in_intgrid (uint64_t idx, int i) { pinput p = {GRID_I[i / NGI], GRID_I[i % NGI], -1, 1.5, -2.0}; return p; }

/* =============================== F1a: unary / extension chains =============================== */
static const char *U_OPS[] = {"mov %s, %s", "ext8 %s, %s", "ext16 %s, %s", "ext32 %s, %s", "uext8 %s, %s", "uext16 %s, %s", "uext32 %s, %s", "neg %s, %s", "negs %s, %s",
                              "and %s, %s, 255", "and %s, %s, 65535", "and %s, %s, 4294967295", "ands %s, %s, 255", "ursh %s, %s, 32", "lsh %s, %s, 32", "rshs %s, %s, 8"};
#define NU 16
static uint64_t f1a_count (int th) { return (uint64_t) NU * NU * NU * 2; }
static void f1a_render (uint64_t idx) {
  int fin = idx % 2; idx /= 2; int u0 = idx % NU, u1 = idx / NU % NU, u2 = idx / NU / NU;
  char l[96]; begin_func ("");
  snprintf (l, sizeof l, U_OPS[u0], "r0", "a"); S ("  %s\n", l);
  snprintf (l, sizeof l, U_OPS[u1], "r1", "r0"); S ("  %s\n", l);
  snprintf (l, sizeof l, U_OPS[u2], "r2", "r1"); S ("  %s\n", l);
  if (fin) S ("  add r, r2, b\n  ret r\n"); else S ("  ret r2\n");
  end_func ();
}
/* =============================== F1b: binary chains with constants =============================== */
static const char *B_OPS[] = {"add", "sub", "adds", "subs", "mul", "muls", "div", "divs", "udiv", "udivs", "mod", "mods", "umod", "umods", "and", "or", "xor", "lsh", "lshs", "rsh", "rshs", "ursh", "urshs", "ands", "xors"};
#define NB 25
static const char *B_X[] = {"b", "1", "2", "-1", "3", "2147483647", "2147483648", "4294967295", "4294967296", "31", "0", "-2147483648", "4611686018427387904", "8"};
#define NX 14
static int f1b_nx (int th) { return th ? NX : 10; }
static uint64_t f1b_count (int th) { uint64_t per = (uint64_t) NB * f1b_nx (th) * 2; return per * per + (th ? per * per * (NB * 6 * 2) : 0); }
static void f1b_insn (uint64_t sym, int nx, const char *dst, const char *src) {
  int sw = sym % 2; sym /= 2; int x = sym % nx, op = sym / nx;
  if (sw) S ("  %s %s, %s, %s\n", B_OPS[op], dst, B_X[x], src); else S ("  %s %s, %s, %s\n", B_OPS[op], dst, src, B_X[x]);
}
static void f1b_render (uint64_t idx) {
  /* thorough flag is implied by idx range: the first per*per programs have length 2 */
  extern int progfam_thorough; int nx = f1b_nx (progfam_thorough); uint64_t per = (uint64_t) NB * nx * 2;
  begin_func ("");
  if (idx < per * per) { f1b_insn (idx % per, nx, "r0", "a"); f1b_insn (idx / per, nx, "r1", "r0"); S ("  ret r1\n"); }
  else { idx -= per * per; f1b_insn (idx % per, nx, "r0", "a"); idx /= per; f1b_insn (idx % per, nx, "r1", "r0"); idx /= per;
    int sw = idx % 2; idx /= 2; int x = idx % 6, op = idx / 6; /* third insn: reduced operand set, may also combine r0 and r1 */
    static const char *X3[] = {"b", "r0", "1", "-1", "4294967296", "7"};
    if (sw) S ("  %s r2, %s, r1\n", B_OPS[op], X3[x]); else S ("  %s r2, r1, %s\n", B_OPS[op], X3[x]);
    S ("  ret r2\n"); }
  end_func ();
}
/* =============================== F1c: compare chains =============================== */
static const char *C_OPS[] = {"eq", "eqs", "ne", "nes", "lt", "lts", "ult", "ults", "le", "les", "ule", "ules", "gt", "gts", "ugt", "ugts", "ge", "ges", "uge", "uges"};
static const char *C_X[] = {"b", "0", "1", "-1", "2147483647", "2147483648"};
static const char *C_U[] = {"mov r1, r0", "ext8 r1, r0", "uext8 r1, r0", "ext32 r1, r0", "uext32 r1, r0", "and r1, r0, 1", "neg r1, r0", "xor r1, r0, 1", "sub r1, 1, r0", "mul r1, r0, b"};
static const char *C_2[] = {"eq r2, r1, %s", "ne r2, r1, %s", "lt r2, r1, %s", "ult r2, r1, %s", "gts r2, r1, %s", "les r2, r1, %s"};
static const char *C_Y[] = {"0", "1", "-1"};
static uint64_t f1c_count (int th) { return 20 * 6 * 10 * 6 * 3 * 2; }
static void f1c_render (uint64_t idx) {
  int br = idx % 2; idx /= 2; int y = idx % 3; idx /= 3; int c2 = idx % 6; idx /= 6; int u = idx % 10; idx /= 10; int x = idx % 6; idx /= 6; int c = (int) idx;
  char l[96]; begin_func (""); S ("  %s r0, a, %s\n  %s\n", C_OPS[c], C_X[x], C_U[u]); snprintf (l, sizeof l, C_2[c2], C_Y[y]); S ("  %s\n", l);
  if (br) S ("  bt L1, r2\n  ret 10\nL1:\n  ret 20\n"); else S ("  ret r2\n");
  end_func ();
}
/* =============================== F7: overflow insns and branches =============================== */
static const char *O_OPS[] = {"addo", "addos", "subo", "subos", "mulo", "mulos", "umulo", "umulos"};
static const char *O_BR[] = {"bo", "bno", "ubo", "ubno"};
static const char *O_ARGS[] = {"a, b", "a, 1", "1, a", "a, -1", "a, 2147483647", "a, 9223372036854775807", "a, 0", "a, 2", "a, 4294967296", "b, a", "a, a", "1, 9223372036854775807", "2147483647, 1", "4294967296, 4294967296", "-1, -1", "0, 5"};
static const char *O_MID[] = {"", "  mov r1, r0\n", "  mov r1, r0\n  mov r2, a\n", "  mov i64:(m), r0\n", "  mov r1, b\n  mov i32:8(m), r1\n"};
static uint64_t f7_count (int th) { return 8 * 4 * 16 * 5 * 2; }
static void f7_render (uint64_t idx) {
  int prev = idx % 2; idx /= 2; int mid = idx % 5; idx /= 5; int ar = idx % 16; idx /= 16; int br = idx % 4; int op = (int) (idx / 4);
  int um = op >= 6, sm = op == 4 || op == 5; if (um && br < 2) br += 2; if (sm && br >= 2) br -= 2; /* only legal pairs (duplicates are harmless) */
  begin_func ("");
  if (prev) S ("  addo r2, 9223372036854775807, 1\n"); /* an earlier insn that sets the flag: it must not leak */
  S ("  %s r0, %s\n%s  %s L1\n  mov r, 100\n  jmp L2\nL1:\n  mov r, 200\nL2:\n", O_OPS[op], O_ARGS[ar], O_MID[mid], O_BR[br]);
  S ("  mov %s:16(m), r0\n  ret r\n", (op & 1) ? "i32" : "i64");
  end_func ();
}
/* =============================== F2: memory accesses, aliasing by input =============================== */
static const char *M_T[] = {"i8", "u8", "i16", "i32", "u32", "i64", "f", "d"};
static const int M_D[] = {0, 4, 8};
/* symbol: 0..95 = (store?,type,ptr,disp); 96 = call emem(m); 97 = call emem(q); 98 = call e1(r) */
#define NMS 99
static int f2_len (uint64_t *idx, int th) { uint64_t n1 = NMS, n2 = n1 * NMS, n3 = n2 * NMS; if (*idx < n1) return 1; *idx -= n1; if (*idx < n2) return 2; *idx -= n2; (void) n3; return 3; }
static uint64_t f2_count (int th) { uint64_t n = NMS; return (n + n * n + (th ? n * n * n : 0)) * 2; }
static void f2_sym (int sym, int k) {
  if (sym == 96) { S ("  call p_emem, emem, r1, m\n  add r, r, r1\n"); return; }
  if (sym == 97) { S ("  call p_emem, emem, r1, q\n  add r, r, r1\n"); return; }
  if (sym == 98) { S ("  call p_e1, e1, r, r\n"); return; }
  int st = sym % 2, t = sym / 2 % 8, p = sym / 16 % 2, d = M_D[sym / 32]; const char *ptr = p ? "q" : "m";
  if (t < 6) { if (st) S ("  add r0, r, %d\n  mov %s:%d(%s), r0\n", 0x1234567 + k * 0x01010101, M_T[t], d, ptr); else S ("  mov r1, %s:%d(%s)\n  mul r, r, 31\n  add r, r, r1\n", M_T[t], d, ptr); }
  else if (t == 6) { if (st) S ("  i2f f1, r\n  fmov f:%d(%s), f1\n", d, ptr); else S ("  fmov f2, f:%d(%s)\n  fmov f:%d(m), f2\n  add r, r, 1\n", d, ptr, 128 + 8 * k); }
  else { if (st) S ("  i2d d1, r\n  dmov d:%d(%s), d1\n", d, ptr); else S ("  dmov d2, d:%d(%s)\n  dmov d:%d(m), d2\n  add r, r, 1\n", d, ptr, 160 + 8 * k); }
}
static void f2_render (uint64_t idx) {
  extern int progfam_thorough; int alloca_p = idx % 2; idx /= 2; int len = f2_len (&idx, progfam_thorough);
  begin_func ("f:f1, f:f2, d:d1, d:d2, i64:p0");
  S ("  mov r, a\n");
  if (alloca_p) /* q replaced by a fresh, fully initialised alloca block: MUST_ALLOCA paths of the alias analysis */
    S ("  alloca p0, 32\n  mov i64:(p0), b\n  mov i64:8(p0), 7\n  mov i64:16(p0), a\n  mov i64:24(p0), -1\n  mov q, p0\n");
  for (int k = 0; k < len; k++) { f2_sym (idx % NMS, k); idx /= NMS; }
  if (alloca_p) S ("  mov r1, i64:(q)\n  add r, r, r1\n  mov r1, i64:8(q)\n  xor r, r, r1\n");
  S ("  ret r\n"); end_func ();
}
static const int F2_QK[] = {0, 4, 8, -1};
static int f2_ninputs (uint64_t idx) { return 4 * 3; }
static pinput f2_input (uint64_t idx, int i) { static const int64_t av[] = {0, -2, 0x0123456789abcdefll}; pinput p = {av[i % 3], 5, F2_QK[i / 3], 1.5, 2.5}; return p; }
/* =============================== F3: control-flow graphs with fuel =============================== */
/* block body x terminator; every block burns one unit of fuel (b) and exits at 0.
   Three enumerations share the renderer: F3 = all programs with <= 2 blocks over the full alphabet,
   F3r = 3 blocks over a reduced alphabet, F3t (thorough only) = 3 blocks over the full alphabet. */
static const char *F3_BODY[] = {"  add r, r, 1\n", "  call p_e1, e1, r, r\n", "  mul r, r, 3\n", "  mov i64:%d(m), r\n"};
static const char *F3_CC[] = {"bne B%d, r, a", "blt B%d, r, a", "ubge B%d, r, a", "beq B%d, r, a", "bts B%d, r", "bgts B%d, r, a"};
typedef struct { int nb, nbody, ncc, sw_all; } f3cfg;
/* terminators: 0 ret | jmp Bj (nb) | cc x Bj | switch | jmpi Bj (nb) */
static int f3_nsw (const f3cfg *c) { return c->sw_all ? c->nb * c->nb : c->nb; }
static int f3_nterm (const f3cfg *c) { return 1 + c->nb + c->ncc * c->nb + f3_nsw (c) + c->nb; }
static uint64_t f3_nprog (const f3cfg *c) { uint64_t per = (uint64_t) c->nbody * f3_nterm (c), n = 1; for (int i = 0; i < c->nb; i++) n *= per; return n; }
static unsigned f3_features; /* bit0: some address-taken block is unreachable from B0 (it is kept alive only by its own jmpi) */
static void f3_render_cfg (const f3cfg *c, uint64_t idx) {
  int nb = c->nb, nterm = f3_nterm (c), succ[4][4] = {{0}}, addr_taken[4] = {0}, has_jmpi[4] = {0};
  begin_func ("i64:la");
  S ("  mov r, a\n  mov k, b\n");
  for (int blk = 0; blk < nb; blk++) {
    uint64_t sym = idx % ((uint64_t) c->nbody * nterm); idx /= (uint64_t) c->nbody * nterm; int body = sym % c->nbody, t = (int) (sym / c->nbody); char l[96];
    S ("B%d:\n  sub k, k, 1\n  ble BX, k, 0\n", blk);
    if (body == 3) S (F3_BODY[3], 8 * blk); else S ("%s", F3_BODY[body]);
    if (t == 0) S ("  ret r\n");
    else if (t <= nb) { S ("  jmp B%d\n", t - 1); succ[blk][t - 1] = 1; }
    else if (t <= nb + c->ncc * nb) { int q = t - nb - 1; snprintf (l, sizeof l, F3_CC[q / nb], q % nb); S ("  %s\n", l); succ[blk][q % nb] = 1; if (blk + 1 < nb) succ[blk][blk + 1] = 1; }
    else if (t <= nb + c->ncc * nb + f3_nsw (c)) { int q = t - nb - c->ncc * nb - 1, x = c->sw_all ? q / nb : q, y = c->sw_all ? q % nb : (q + 1) % nb; S ("  and r1, r, 1\n  switch r1, B%d, B%d\n", x, y); succ[blk][x] = succ[blk][y] = 1; }
    else { int q = t - nb - c->ncc * nb - f3_nsw (c) - 1; S ("  laddr la, B%d\n  jmpi la\n", q); addr_taken[q] = 1; has_jmpi[blk] = 1; }
  }
  S ("  add r, r, 1000\n  ret r\nBX:\n  ret r\n"); /* falling out of the last block */
  end_func ();
  int reach[4] = {1, 0, 0, 0}, ch = 1;
  while (ch) { ch = 0; for (int i = 0; i < nb; i++) if (reach[i]) for (int j = 0; j < nb; j++) if ((succ[i][j] || (has_jmpi[i] && addr_taken[j])) && !reach[j]) { reach[j] = 1; ch = 1; } }
  f3_features = 0; for (int j = 0; j < nb; j++) if (addr_taken[j] && !reach[j]) f3_features |= 1;
}
static const f3cfg F3_C1 = {1, 4, 6, 1}, F3_C2 = {2, 4, 6, 1}, F3_CR = {3, 2, 1, 0}, F3_CT = {3, 4, 3, 1};
static uint64_t f3_count (int th) { return f3_nprog (&F3_C1) + f3_nprog (&F3_C2); }
static void f3_render (uint64_t idx) { if (idx < f3_nprog (&F3_C1)) f3_render_cfg (&F3_C1, idx); else f3_render_cfg (&F3_C2, idx - f3_nprog (&F3_C1)); }
static uint64_t f3r_count (int th) { return f3_nprog (&F3_CR); }
static void f3r_render (uint64_t idx) { f3_render_cfg (&F3_CR, idx); }
static uint64_t f3t_count (int th) { return th ? f3_nprog (&F3_CT) : 0; }
static void f3t_render (uint64_t idx) { f3_render_cfg (&F3_CT, idx); }
static int f3_ninputs (uint64_t idx) { return 3 * 4; }
static pinput f3_input (uint64_t idx, int i) { static const int64_t fuel[] = {2, 3, 7}, av[] = {0, 1, -5, 4}; pinput p = {av[i % 4], fuel[i / 4], -1, 0, 0}; return p; }
/* =============================== F3u: cold code with operations the compiler must not evaluate by trapping =============================== */
static const char *UB_OPS[] = {"div r2, r0, r1", "mod r2, r0, r1", "divs r2, r0, r1", "mods r2, r0, r1", "udiv r2, r0, r1", "umod r2, r0, r1", "udivs r2, r0, r1", "umods r2, r0, r1", "lsh r2, r0, r1", "rshs r2, r0, r1", "d2i r2, 1e300", "f2i r2, 3e38f"};
static const char *UB_VALS[] = {"-9223372036854775808", "-1", "5", "0", "-2147483648", "-1", "7", "4294967296", "1", "64", "1", "-1"};
static uint64_t f3u_count (int th) { return 12 * 6 * 2; }
static void f3u_render (uint64_t idx) {
  int where = idx % 2; idx /= 2; int v = idx % 6, op = (int) (idx / 6);
  begin_func ("");
  /* the cold block is reachable for the compiler (depends on a) but no input of the grid enters it */
  S ("  mov r, b\n  bt COLD, a\nHOT:\n  add r, r, 1\n  ret r\nCOLD:\n  mov r0, %s\n  mov r1, %s\n  %s\n  add r, r, r2\n", UB_VALS[2 * v], UB_VALS[2 * v + 1], UB_OPS[op]);
  if (where) S ("  jmp HOT\n"); else S ("  ret r\n");
  end_func ();
}
static int f3u_ninputs (uint64_t idx) { return 3; }
static pinput f3u_input (uint64_t idx, int i) { pinput p = {0, GRID_I[i * 3], -1, 0, 0}; return p; }
/* =============================== F4: calls with live values =============================== */
static const char *F4_CALL[] = {
  "call p_e0, e0, r2", "call p_e1, e1, r2, r0", "call p_e2, e2, r2, r0, r1", "call p_e2, e2, r2, r1, r0", "call p_ev, ev, r0",
  "call p_e6, e6, r2, a, b, r0, r1, 5, r0", "call p_e6, e6, r2, r1, r1, r1, r0, r0, r0", "call p_e10, e10, r2, a, b, r0, r1, 1, 2, r0, r1, b, a",
  "call p_e10, e10, r2, 1, 2, 3, 4, 5, 6, 7, r0, 9, r1", "call p_ed, ed, d2, d1", "call p_edd, edd, d2, d1, x", "call p_edd, edd, d2, y, d1", "call p_eid, eid, r2, r0, d1",
  "call p_e32, e32, r2, r0", "call p_eu8, eu8, r2, r1", "call p_emem, emem, r2, m"};
#define NF4 16
static uint64_t f4_count (int th) { return (uint64_t) NF4 * (NF4 + 1) * 4; }
static void f4_render (uint64_t idx) {
  int pre = idx % 4; idx /= 4; int c1 = idx % NF4, c2 = (int) (idx / NF4);
  begin_func ("d:d1, d:d2");
  S ("  add r0, a, 1\n  mul r1, b, 3\n  dadd d1, x, y\n  dmov d2, 0.5\n  mov r2, 11\n");
  if (pre & 1) S ("  mov i64:(m), r0\n"); if (pre & 2) S ("  mov r, i64:8(q)\n"); else S ("  mov r, 0\n");
  S ("  %s\n", F4_CALL[c1]); S ("  add r, r, r2\n  add r, r, r0\n  xor r, r, r1\n");
  if (c2 < NF4) { S ("  %s\n", F4_CALL[c2]); S ("  add r, r, r2\n  sub r, r, r0\n"); }
  S ("  dadd d1, d1, d2\n  dmov d:16(m), d1\n");
  if (pre & 1) S ("  mov r2, i64:(m)\n  add r, r, r2\n");
  S ("  ret r\n"); end_func ();
}
/* =============================== F5: floating point chains =============================== */
static const char *F5_T[] = {"f", "d", "ld"};
static const char *F5_BIN[] = {"add", "sub", "mul", "div"};
static uint64_t f5_count (int th) { return 3ull * 4 * 3 * 4 * 3 * 8; }
static void f5_render (uint64_t idx) {
  int tail = idx % 8; idx /= 8; int o2 = idx % 3; idx /= 3; int b2 = idx % 4; idx /= 4; int o1 = idx % 3; idx /= 3; int b1 = idx % 4; int t = (int) (idx / 4);
  const char *T = F5_T[t]; static const char *PFX[] = {"f", "d", "ld"}; const char *P = PFX[t];
  begin_func ("f:f1, f:f2, f:f3, d:d1, d:d2, d:d3, ld:l1, ld:l2, ld:l3");
  const char *v1 = t == 0 ? "f1" : t == 1 ? "d1" : "l1", *v2 = t == 0 ? "f2" : t == 1 ? "d2" : "l2", *v3 = t == 0 ? "f3" : t == 1 ? "d3" : "l3";
  if (t == 0) S ("  d2f f1, x\n  d2f f2, y\n"); else if (t == 1) S ("  dmov d1, x\n  dmov d2, y\n"); else S ("  d2ld l1, x\n  d2ld l2, y\n");
  static const char *K[] = {"0.5", "3.0", "-1.25"};
  char c1[16], c2[16]; snprintf (c1, sizeof c1, "%s%s", K[o1 % 3], t == 0 ? "f" : t == 2 ? "L" : ""); snprintf (c2, sizeof c2, "%s%s", K[o2 % 3], t == 0 ? "f" : t == 2 ? "L" : "");
  S ("  %s%s %s, %s, %s\n", P, F5_BIN[b1], v3, v1, o1 == 0 ? v2 : o1 == 1 ? c1 : v1);
  S ("  %s%s %s, %s, %s\n", P, F5_BIN[b2], v3, o2 == 2 ? v2 : v3, o2 == 0 ? v2 : o2 == 1 ? c2 : v3);
  S ("  mov r, 0\n");
  switch (tail) {
  case 0: S ("  %smov %s:32(m), %s\n", P, T, v3); break;
  case 1: S ("  %slt r, %s, %s\n  %smov %s:32(m), %s\n", P, v3, v1, P, T, v3); break;
  case 2: S ("  %sbge L1, %s, %s\n  mov r, 5\nL1:\n  %smov %s:32(m), %s\n", P, v3, v2, P, T, v3); break;
  case 3: S ("  %sneg %s, %s\n  %smov %s:32(m), %s\n  %seq r, %s, %s\n", P, v3, v3, P, T, v3, P, v3, v3); break;
  case 4: if (t == 0) S ("  f2d d3, f3\n  dmov d:32(m), d3\n"); else if (t == 1) S ("  d2f f3, d3\n  fmov f:32(m), f3\n  d2ld l3, d3\n  ldmov ld:48(m), l3\n"); else S ("  ld2d d3, l3\n  dmov d:32(m), d3\n  ld2f f3, l3\n  fmov f:48(m), f3\n"); break;
  case 5: S ("  i2%s %s, a\n  %sadd %s, %s, %s\n  %smov %s:32(m), %s\n", t == 0 ? "f" : t == 1 ? "d" : "ld", v1, P, v3, v3, v1, P, T, v3); break;
  case 6: S ("  ui2%s %s, b\n  %smul %s, %s, %s\n  %smov %s:32(m), %s\n", t == 0 ? "f" : t == 1 ? "d" : "ld", v1, P, v3, v3, v1, P, T, v3); break;
  default: S ("  %smov %s:32(m), %s\n  %smov %s, %s:32(m)\n  %sne r, %s, %s\n  call p_ed, ed, d3, x\n  dmov d:64(m), d3\n  %smov %s:80(m), %s\n", P, T, v3, P, v1, T, P, v1, v3, P, T, v3);
  }
  S ("  ret r\n"); end_func ();
}
static void canon_nan (uint8_t *p, int t) { /* t: 0 f, 1 d, 2 ld */
  if (t == 0) { float v; memcpy (&v, p, 4); if (v != v) memset (p, 0x7f, 4); }
  else if (t == 1) { double v; memcpy (&v, p, 8); if (v != v) memset (p, 0x7f, 8); }
  else { long double v = 0; memcpy (&v, p, 10); if (v != v) memset (p, 0x7f, 10); memset (p + 10, 0, 6); }
}
static void f5_mask (uint64_t idx, uint8_t *m) {
  int tail = idx % 8; int t = (int) (idx / 8 / 3 / 4 / 3 / 4);
  if (tail == 4) { if (t == 0) canon_nan (m + 32, 1); else if (t == 1) { canon_nan (m + 32, 0); canon_nan (m + 48, 2); } else { canon_nan (m + 32, 1); canon_nan (m + 48, 0); } }
  else canon_nan (m + 32, t);
  if (tail == 7) { canon_nan (m + 64, 1); canon_nan (m + 80, t); }
}
static int f5_ninputs (uint64_t idx) { return NGD * NGD; }
static pinput f5_input (uint64_t idx, int i) { pinput p = {GRID_I[i % NGI], GRID_I[(i / 3) % NGI], -1, GRID_D[i / NGD], GRID_D[i % NGD]}; return p; }
/* =============================== F6: register pressure =============================== */
static uint64_t f6_count (int th) { return 9 * 3 * 2 * 2 * 2; }
static void f6_render (uint64_t idx) {
  int fp = idx % 2; idx /= 2; int al = idx % 2; idx /= 2; int lp = idx % 2; idx /= 2; int nc = idx % 3; int n = 12 + (int) (idx / 3);
  char loc[1024]; size_t k = 0; loc[0] = 0;
  for (int i = 0; i < n; i++) k += snprintf (loc + k, sizeof loc - k, "%s%s:v%d", i ? ", " : "", fp ? "d" : "i64", i);
  k += snprintf (loc + k, sizeof loc - k, ", d:ds, i64:p0, i64:n");
  begin_func (loc);
  if (al) S ("  alloca p0, 64\n  mov i64:(p0), a\n  mov i64:56(p0), b\n");
  for (int i = 0; i < n; i++) { if (fp) S ("  i2d v%d, a\n  dadd v%d, v%d, %d.5\n", i, i, i, i); else S ("  mul v%d, b, %d\n  add v%d, v%d, a\n", i, i + 1, i, i); }
  if (lp) S ("  mov n, 3\nLOOP:\n");
  if (nc >= 1) S (fp ? "  call p_ed, ed, v2, v1\n" : "  call p_e1, e1, v2, v1\n");
  if (nc >= 2) S (fp ? "  call p_edd, edd, v0, v3, v4\n" : "  call p_e2, e2, v0, v3, v4\n");
  if (fp) { S ("  dmov ds, 0.0\n"); for (int i = 0; i < n; i++) S ("  dmul v%d, v%d, 1.5\n  dadd ds, ds, v%d\n", i, i, i); }
  else { S ("  mov r, 0\n"); for (int i = 0; i < n; i++) S ("  mul r, r, 3\n  add r, r, v%d\n  xor v%d, v%d, r\n", i, i, i); }
  if (lp) S ("  sub n, n, 1\n  bgt LOOP, n, 0\n");
  if (fp) S ("  dmov d:(m), ds\n  mov r, 1\n");
  if (al) S ("  mov r0, i64:(p0)\n  add r, r, r0\n  mov r0, i64:56(p0)\n  add r, r, r0\n");
  S ("  ret r\n"); end_func ();
}
static int f6_ninputs (uint64_t idx) { return 9; }
static pinput f6_input (uint64_t idx, int i) { static const int64_t v[] = {0, 3, -1000000007}; pinput p = {v[i % 3], v[i / 3], -1, 0.25, 2.0}; return p; }
/* =============================== F8: loops with memory and pointers that advance =============================== */
static uint64_t f8_count (int th) { return 4 * 3 * 3 * 4 * 2; }
static void f8_render (uint64_t idx) {
  int red = idx % 2; idx /= 2; int body = idx % 4; idx /= 4; int step = idx % 3; idx /= 3; int ty = idx % 3; int src = (int) (idx / 3);
  static const char *T[] = {"i64", "i32", "u8"}; static const int ST[] = {8, 4, 16};
  begin_func ("i64:p0, i64:n, i64:t");
  switch (src) { /* pointer source: argument buffer, alloca, alloca + constant through a chain, argument masked */
  case 0: S ("  mov p0, m\n"); break;
  case 1: S ("  alloca p0, 128\n"); break;
  case 2: S ("  alloca t, 192\n  add t, t, 32\n  mov p0, t\n  sub p0, p0, 0\n"); break;
  default: S ("  or p0, q, 0\n");
  }
  S ("  mov n, 0\n  mov t, p0\nINIT:\n  mov i64:(t), n\n  add t, t, 8\n  add n, n, 1\n  blt INIT, n, 16\n"); /* initialise 128 bytes */
  S ("  mov r, a\n  mov n, b\n  mov t, p0\nLOOP:\n  ble DONE, n, 0\n");
  switch (body) {
  case 0: S ("  mov r1, %s:(t)\n  add r, r, r1\n  mov %s:(t), r\n", T[ty], T[ty]); break;           /* load, store back: x=mem;...;mem=x forwarding */
  case 1: S ("  mov %s:(t), r\n  mov r1, %s:8(t)\n  add r, r, r1\n  mov %s:(t), n\n", T[ty], T[ty], T[ty]); break; /* dead store candidate */
  case 2: S ("  mov r1, i64:(t)\n  mov %s:4(t), r\n  mov r2, i64:(t)\n  add r, r1, r2\n", T[ty]); break;        /* overlapping widths between two loads */
  default: S ("  mov r1, %s:(t)\n  call p_emem, emem, r2, t\n  mov r0, %s:(t)\n  add r, r, r1\n  add r, r, r0\n", T[ty], T[ty]); /* call may modify */
  }
  S ("  add t, t, %d\n  sub n, n, 1\n  jmp LOOP\nDONE:\n", ST[step]);
  if (red) S ("  mov r1, i64:(p0)\n  xor r, r, r1\n  mov r1, i64:64(p0)\n  add r, r, r1\n");
  S ("  ret r\n"); end_func ();
}
static int f8_ninputs (uint64_t idx) { return 3 * 4; }
static pinput f8_input (uint64_t idx, int i) { static const int64_t n[] = {0, 1, 2, 5}, av[] = {0, 7, -1}; pinput p = {av[i % 3], n[i / 3], -1, 0, 0}; return p; }

/* =============================== F9: inlining (callee x caller features) =============================== */
static const char *F9_PT[] = {"i64", "i8", "u16", "u32", "d", "blk", "blk2x16"}; /* parameter type; the last one: two 16-byte blocks in one call */
static const char *F9_RT[] = {"i64", "i32", "u8", "i64, d"};                    /* result type(s) */
static const int F9_PAD[] = {0, 40, 60, 190, 215};                              /* callee size padding around the two inlining thresholds */
typedef struct { int al, rets, pt, rt, kind, pad;  int inl, loop, resmem, own, sites; } f9cfg;
static int f9_npad (int th) { return th ? 5 : 1; }
static uint64_t f9_count (int th) { return 6ull * 3 * 7 * 4 * 3 * f9_npad (th) * 2 * 2 * 2 * 3 * 2; }
static f9cfg f9_decode (uint64_t idx) {
  extern int progfam_thorough; f9cfg c;
  c.sites = idx % 2; idx /= 2; c.own = idx % 3; idx /= 3; c.resmem = idx % 2; idx /= 2; c.loop = idx % 2; idx /= 2; c.inl = idx % 2; idx /= 2;
  c.pad = idx % f9_npad (progfam_thorough); idx /= f9_npad (progfam_thorough); c.kind = idx % 3; idx /= 3; c.rt = idx % 4; idx /= 4; c.pt = idx % 7; idx /= 7; c.rets = idx % 3; idx /= 3; c.al = (int) idx;
  return c;
}
static void f9_render (uint64_t idx) {
  f9cfg c = f9_decode (idx); const char *pt = F9_PT[c.pt];
  ptl = 0; S ("%s", PRELUDE);
  /* ---- callee ---- */
  if (c.pt == 6) S ("p_g: proto %s, blk:16(p0), blk:16(pq), i64:n\ng: func %s, blk:16(p0), blk:16(pq), i64:n\n", F9_RT[c.rt], F9_RT[c.rt]);
  else if (c.pt == 5) S ("p_g: proto %s, blk:24(p0), i64:n\ng: func %s, blk:24(p0), i64:n\n", F9_RT[c.rt], F9_RT[c.rt]);
  else S ("p_g: proto %s, %s:p0, i64:n\ng: func %s, %s:p0, i64:n\n", F9_RT[c.rt], pt, F9_RT[c.rt], pt);
  S ("  local i64:t, i64:u, i64:al, i64:al2, i64:w, d:dv\n");
  if (c.al == 1) S ("  alloca al, 16\n");
  if (c.pt == 4) S ("  mov t, 9\n  dbgt G1, p0, 1.0\n  mov t, 7\nG1:\n");
  else if (c.pt == 6) S ("  mov t, i64:(p0)\n  add t, t, i64:8(p0)\n  mul t, t, 3\n  add t, t, i64:(pq)\n  mov i64:8(pq), 99\n  add t, t, i64:8(pq)\n");
  else if (c.pt == 5) S ("  mov t, i64:(p0)\n  add t, t, i64:16(p0)\n  mov i64:8(p0), 99\n  add t, t, i64:8(p0)\n");
  else S ("  mul t, p0, 3\n  add t, t, 1\n");
  if (c.al == 2) S ("GA:\n  alloca al, 32\n");
  if (c.al == 3) S ("  and u, n, 31\n  add u, u, 8\n  alloca al, u\n");
  if (c.al == 4) S ("  alloca al, 8\n  alloca al2, 24\n  mov i64:16(al2), 5\n");
  if (c.al == 5) /* a fresh block per iteration of a loop, all blocks live together (linked list), then walked */
    S ("  mov al2, 0\n  mov u, 3\nGL:\n  alloca al, 16\n  mov i64:(al), u\n  mov i64:8(al), al2\n  mov al2, al\n  sub u, u, 1\n  bgt GL, u, 0\n  mov w, 0\nGW:\n  add w, w, i64:(al2)\n  mov al2, i64:8(al2)\n  bne GW, al2, 0\n  add t, t, w\n");
  if (c.al) S ("  mov i64:(al), t\n");
  for (int i = 0; i < F9_PAD[c.pad]; i++) S ("  add w, t, %d\n", i);
  if (c.kind == 1) S ("  call p_e1, e1, t, t\n");
  if (c.kind == 2) { S ("  ble GR, n, 0\n  sub u, n, 1\n");
    if (c.pt == 6) S ("  call p_g, g, w%s, blk:16(p0), blk:16(pq), u\n", c.rt == 3 ? ", dv" : ""); else
    if (c.pt == 5) S ("  call p_g, g, w%s, blk:24(p0), u\n", c.rt == 3 ? ", dv" : ""); else S ("  call p_g, g, w%s, p0, u\n", c.rt == 3 ? ", dv" : "");
    S ("  add t, t, w\nGR:\n"); }
  if (c.al) S ("  add t, t, i64:(al)\n");
  if (c.al == 4) S ("  add t, t, i64:16(al2)\n");
  const char *r2 = c.rt == 3 ? ", 2.5" : "";
  if (c.rets == 0) S ("  ret t%s\n", r2);
  else if (c.rets == 1) S ("  bgt G2, t, 100\n  ret t%s\nG2:\n  add t, t, 5\n  ret t%s\n", r2, r2);
  else S ("  ret t%s\nGC:\n  add t, t, 1\n  ret t%s\n", r2, r2);
  S ("endfunc\n");
  /* ---- caller ---- */
  S ("f: func i64, i64:a, i64:b, p:m, p:q, d:x, d:y\n  local i64:r, i64:r0, i64:k, i64:oa, i64:n2, d:d0\n  mov r, 0\n  and n2, b, 3\n");
  if (c.own) S ("  alloca oa, 32\n");
  if (c.own == 1) S ("  mov i64:(oa), a\n  mov i64:24(oa), b\n");
  if (c.loop) S ("  mov k, 3\nLOOP:\n");
  for (int site = 0; site <= c.sites; site++) {
    const char *res = c.resmem ? "i64:40(q)" : "r0"; char arg[48];
    if (c.pt == 4) snprintf (arg, sizeof arg, "%s", site ? "y" : "x"); else if (c.pt == 6) snprintf (arg, sizeof arg, "blk:16(m), blk:16(q)"); else if (c.pt == 5) snprintf (arg, sizeof arg, "blk:24(m)"); else snprintf (arg, sizeof arg, "%s", site ? "b" : "a");
    S ("  %s p_g, g, %s%s, %s, n2\n", c.inl ? "inline" : "call", res, c.rt == 3 ? ", d0" : "", arg);
    if (c.resmem) S ("  mov r0, i64:40(q)\n");
    S ("  mul r, r, 5\n  add r, r, r0\n");
    if (c.rt == 3) S ("  dmov d:48(q), d0\n");
  }
  if (c.loop) S ("  sub k, k, 1\n  bgt LOOP, k, 0\n");
  if (c.own == 1) S ("  add r, r, i64:(oa)\n  add r, r, i64:24(oa)\n");
  if (c.pt == 5) S ("  add r, r, i64:8(m)\n"); /* the callee's write to its block copy must not be visible */
  if (c.pt == 6) S ("  add r, r, i64:8(q)\n  add r, r, i64:(m)\n");
  S ("  ret r\n"); end_func ();
}
static int f9_ninputs (uint64_t idx) { return 6 * 3; }
static pinput f9_input (uint64_t idx, int i) {
  static const int64_t av[] = {0, 1, -1, 0x1ff80, 0x80008080ll, 33}; static const int64_t bv[] = {0, 2, 0x10003};
  pinput p = {av[i % 6], bv[i / 6], -1, (i % 2) ? 0.5 : 2.5, 1.25}; return p;
}

/* =============================== F10: link-time branch rewrites =============================== */
static const char *F10_CC[] = {"beq", "beqs", "bne", "bnes", "blt", "blts", "ublt", "ublts", "ble", "bles", "uble", "ubles", "bgt", "bgts", "ubgt", "ubgts", "bge", "bges", "ubge", "ubges",
                                "dbeq", "dbne", "dblt", "dble", "dbgt", "dbge", "fbeq", "fbne", "fblt", "fble", "fbgt", "fbge", "ldbeq", "ldbne", "ldblt", "ldble", "ldbgt", "ldbge", "bt", "bts", "bf", "bfs"};
#define NF10CC 42
static const int F10_CHAIN[] = {1, 2, 31, 32, 33, 40};
static uint64_t f10_count (int th) { return NF10CC * 4 + 12 + 6 * 3 + 4; }
static void f10_render (uint64_t idx) {
  begin_func ("f:f1, f:f2, ld:l1, ld:l2"); S ("  mov r, 5\n");
  if (idx < NF10CC * 4) { int cc = idx % NF10CC, v = (int) (idx / NF10CC); char br[64]; const char *n = F10_CC[cc];
    if (n[0] == 'd') snprintf (br, sizeof br, "%s L1, x, y", n);
    else if (n[0] == 'f') { S ("  d2f f1, x\n  d2f f2, y\n"); snprintf (br, sizeof br, "%s L1, f1, f2", n); }
    else if (n[0] == 'l') { S ("  d2ld l1, x\n  d2ld l2, y\n"); snprintf (br, sizeof br, "%s L1, l1, l2", n); }
    else if (n[1] == 't' || n[1] == 'f') snprintf (br, sizeof br, "%s L1, a", n);
    else snprintf (br, sizeof br, "%s L1, a, b", n);
    switch (v) {
    case 0: S ("  %s\nL1:\n  add r, r, 1\n  ret r\n", br); break;                               /* branch to the next insn */
    case 1: S ("  %s\nLU:\nL1:\n  add r, r, 1\n  ret r\n", br); break;                          /* ... through an unused label */
    case 2: S ("  %s\n  jmp L2\nL1:\n  add r, r, 1\nL2:\n  ret r\n", br); break;                 /* bcc L1; jmp L2; L1: */
    default: S ("  %s\n  jmp L2\nL2:\nL1:\n  add r, r, 1\n  ret r\n", br);                        /* bcc L1; jmp L2; L2: L1: */
    } }
  else if (idx < NF10CC * 4 + 12) { static const char *B[] = {"bt", "bf", "bts", "bfs"}; static const char *V[] = {"0", "1", "4294967296"}; int i = (int) idx - NF10CC * 4;
    S ("  %s L1, %s\n  add r, r, 10\nL1:\n  add r, r, 1\n  ret r\n", B[i % 4], V[i / 4]); }
  else if (idx < NF10CC * 4 + 30) { int i = (int) idx - NF10CC * 4 - 12, n = F10_CHAIN[i % 6], v = i / 6;
    if (v == 0) S ("  jmp C0\n"); else if (v == 1) S ("  bne C0, a, b\n  ret r\n"); else S ("  and r1, a, 1\n  switch r1, C0, C%d\n", n - 1);
    S ("CE:\n  add r, r, 100\n  ret r\n");
    for (int k = 0; k < n; k++) S ("C%d:\n  jmp %s%.0d\n", k, k + 1 < n ? "C" : "CE", k + 1 < n ? k + 1 : 0);
    /* note: "%.0d" prints nothing for 0 */ }
  else { int i = (int) idx - NF10CC * 4 - 30;
    if (i == 0) S ("  ret r\nD1:\n  jmp D2\nD2:\n  jmp D1\n");                               /* jump cycle in dead code */
    else if (i == 1) S ("  bne D1, a, b\n  ret r\nD1:\n  jmp D2\nD3:\n  add r, r, 7\n  ret r\nD2:\n  jmp D3\n");
    else if (i == 2) S ("  jmp D1\nD1:\n  jmp D2\nD2:\n  bne D1, a, a\n  ret r\n");
    else S ("  bt D1, a\n  bf D1, a\n  add r, r, 1000\nD1:\n  ret r\n"); }
  end_func ();
}

static int f10_ninputs (uint64_t idx) { return idx < NF10CC * 4 && (F10_CC[idx % NF10CC][0] == 'd' || F10_CC[idx % NF10CC][0] == 'f' || F10_CC[idx % NF10CC][0] == 'l') ? NGD * NGD : NGI * NGI; }
static pinput f10_input (uint64_t idx, int i) {
  if (f10_ninputs (idx) == NGI * NGI) return in_intgrid (idx, i);
  pinput p = {1, 2, -1, GRID_D[i / NGD], GRID_D[i % NGD]}; return p;
}
/* =============================== F11: every fp comparison, value and branch form, over a grid with NaN, infinities and signed zeros =============================== */
static const char *F11_CMP[] = {"eq", "ne", "lt", "le", "gt", "ge"};
static uint64_t f11_count (int th) { return 6 * 2 * 3 * 4; }
static void f11_render (uint64_t idx) {
  int cmp = idx % 6, br = idx / 6 % 2, t = idx / 12 % 3, shape = (int) (idx / 36);
  static const char *PFX[] = {"f", "d", "ld"}; const char *P = PFX[t];
  begin_func ("f:f1, f:f2, ld:l1, ld:l2, d:d1, d:d2");
  const char *v1 = t == 0 ? "f1" : t == 1 ? "d1" : "l1", *v2 = t == 0 ? "f2" : t == 1 ? "d2" : "l2";
  if (t == 0) S ("  d2f f1, x\n  d2f f2, y\n"); else if (t == 1) S ("  dmov d1, x\n  dmov d2, y\n"); else S ("  d2ld l1, x\n  d2ld l2, y\n");
  const char *k = t == 0 ? "1.0f" : t == 1 ? "1.0" : "1.0L"; char mem[32]; snprintf (mem, sizeof mem, "%s:32(m)", P);
  const char *o1 = v1, *o2 = shape == 0 ? v2 : shape == 1 ? k : shape == 2 ? v1 : mem;
  if (shape == 3) S ("  %smov %s, %s\n", P, mem, v2);
  S ("  mov r, 3\n");
  if (br) S ("  %sb%s L1, %s, %s\n  add r, r, 10\nL1:\n", P, F11_CMP[cmp], o1, o2);
  else S ("  %s%s r0, %s, %s\n  add r, r, r0\n  %s%s r0, %s, %s\n  mul r0, r0, 4\n  add r, r, r0\n", P, F11_CMP[cmp], o1, o2, P, F11_CMP[cmp], o2, o1);
  S ("  ret r\n"); end_func ();
}
static int f11_ninputs (uint64_t idx) { return NGD * NGD; }
static pinput f11_input (uint64_t idx, int i) { pinput p = {1, 2, -1, GRID_D[i / NGD], GRID_D[i % NGD]}; return p; }

/* =============================== F12: variables tied to hard registers (self-contained uses: no call while the variable is live) =============================== */
static const char *F12_REG[] = {"r9", "r8", "rbx", "r12", "r15"};
static uint64_t f12_count (int th) { return 5 * 4; }
static void f12_render (uint64_t idx) {
  int rg = idx % 5, shape = (int) (idx / 5);
  ptl = 0; S ("%sf: func i64, i64:a, i64:b, p:m, p:q, d:x, d:y\n  local i64:r, i64:r0, i64:r1, i64:r2, i64:k\n  global i64:g:%s\n  mov r0, g\n", PRELUDE, F12_REG[rg]); /* the register's old value is restored before returning */
  switch (shape) {
  case 0: S ("  mov g, a\n  add g, g, b\n  mov r, g\n"); break;
  case 1: S ("  mov g, a\n  mov k, 3\nL1:\n  add g, g, b\n  mul g, g, 3\n  sub k, k, 1\n  bgt L1, k, 0\n  mov i64:8(m), g\n  mov r, g\n"); break;
  case 2: S ("  mov g, i64:(m)\n  xor g, g, a\n  mov i64:16(m), g\n  mov r1, i64:16(m)\n  add r, r1, g\n"); break;
  default: S ("  mov g, a\n  mov r1, b\n  add r2, g, r1\n  mul r1, r2, g\n  sub g, r1, r2\n  and r, g, 65535\n  blt L2, a, b\n  add r, r, g\nL2:\n"); break;
  }
  S ("  mov g, r0\n  ret r\n"); end_func ();
}

/* =============================== F13: single-block loops with loop-carried copies (phi webs: lost-copy and swap shapes) =============================== */
static const char *F13_ST[] = {"mov p0, a", "mov q0, b", "mov a, b", "mov b, a", "mov a, p0", "mov b, q0", "ursh a, a, 1", "add b, b, 1", "sub a, a, 1", "xor a, a, b", "mov p0, q0", "and b, b, a"};
#define NF13S 12
static const char *F13_BR[] = {"bne L1, a, p0", "bne L1, b, q0", "bne L1, a, b", "blt L1, a, b", "bne L1, p0, q0", "bgt L1, a, 0", "bne L1, a, q0", "ubgt L1, b, a"};
#define NF13B 8
static int f13_len (int th) { return th ? 4 : 3; }
static uint64_t f13_count (int th) { uint64_t n = NF13B; for (int i = 0; i < f13_len (th); i++) n *= NF13S; return n; }
static void f13_render (uint64_t idx) {
  extern int progfam_thorough; int br = idx % NF13B; idx /= NF13B;
  begin_func ("i64:p0, i64:q0, i64:n"); S ("  mov p0, -1\n  mov q0, -1\n  mov n, 0\nL1:\n");
  for (int i = 0; i < f13_len (progfam_thorough); i++) { S ("  %s\n", F13_ST[idx % NF13S]); idx /= NF13S; }
  S ("  add n, n, 1\n  %s\n  mul r, a, 3\n  add r, r, b\n  mul r, r, 5\n  add r, r, p0\n  xor r, r, q0\n  mul r, r, 7\n  add r, r, n\n  ret r\n", F13_BR[br]); end_func ();
}
static int f13_ninputs (uint64_t idx) { return 20; }
static pinput f13_input (uint64_t idx, int i) { static const int64_t av[] = {0, 1, 100, -1, 7}, bv[] = {0, 3, 100, -5}; pinput p = {av[i % 5], bv[i / 5], -1, 0, 0}; return p; }

/* =============================== F14: structured loops (conditional inside a loop, if/else, nested loop, definitions used after the loop) =============================== */
static const char *F14_ST[] = {"mov p0, a", "mov a, b", "mov b, p0", "ursh a, a, 1", "add b, b, 1", "xor a, a, b", "mov q0, a", "sub a, a, q0"};
#define NF14S 8
static const char *F14_CD[] = {"bne %s, a, p0", "blt %s, a, b", "bgt %s, a, 0", "bne %s, b, q0", "ubgt %s, b, a", "beq %s, p0, q0"};
#define NF14C 6
static uint64_t f14_count (int th) { return 4ull * NF14S * NF14S * NF14S * NF14C * NF14C; }
static void f14_render (uint64_t idx) {
  int c2 = idx % NF14C; idx /= NF14C; int c1 = idx % NF14C; idx /= NF14C; int s3 = idx % NF14S; idx /= NF14S; int s2 = idx % NF14S; idx /= NF14S; int s1 = idx % NF14S; int k = (int) (idx / NF14S);
  char b1[64], b2[64]; snprintf (b1, sizeof b1, F14_CD[c1], k == 1 ? "LI" : "T1"); snprintf (b2, sizeof b2, F14_CD[c2], "L1");
  begin_func ("i64:p0, i64:q0, i64:n, i64:j"); S ("  mov p0, -1\n  mov q0, -1\n  mov n, 0\n");
  switch (k) {
  case 0: S ("L1:\n  %s\n  %s\n  jmp E1\nT1:\n  %s\nE1:\n  %s\n  add n, n, 1\n  %s\n", F14_ST[s1], b1, F14_ST[s2], F14_ST[s3], b2); break;                     /* do { S1; if (C1) S2; S3 } while (C2) */
  case 1: S ("L1:\n  %s\n  mov j, 3\nLI:\n  %s\n  sub j, j, 1\n  ble EI, j, 0\n  %s\nEI:\n  %s\n  add n, n, 1\n  %s\n", F14_ST[s1], F14_ST[s2], b1, F14_ST[s3], b2); break; /* nested: inner loop runs while C1, at most 3 times */
  case 2: S ("  %s\nL1:\n  %s\n  add n, n, 1\n  %s\n  %s\n  %s\n  add n, n, 100\nT1:\n", F14_ST[s1], F14_ST[s2], b2, F14_ST[s3], b1); break;                         /* S1; do S2 while (C2); S3; if (!C1) n += 100 */
  default: S ("L1:\n  %s\n  %s\n  jmp E1\nT1:\n  %s\nE1:\n  add n, n, 1\n  %s\n", b1, F14_ST[s1], F14_ST[s2], b2); S ("  %s\n", F14_ST[s3]); break;                /* do { if (C1) S2 else S1 } while (C2); S3 */
  }
  S ("  mul r, a, 3\n  add r, r, b\n  mul r, r, 5\n  add r, r, p0\n  xor r, r, q0\n  mul r, r, 7\n  add r, r, n\n  ret r\n"); end_func ();
}

/* =============================== F15: operations whose operands are constants the optimizer knows (folding in GVN/CCP, link-time simplification) =============================== */
static const char *F15_OP[] = {"add", "adds", "sub", "subs", "mul", "muls", "and", "ands", "or", "ors", "xor", "xors", "lsh", "lshs", "rsh", "rshs", "ursh", "urshs", "eq", "eqs", "ne", "nes", "lt", "lts", "ult", "ults",
                               "le", "les", "ule", "ules", "gt", "gts", "ugt", "ugts", "ge", "ges", "uge", "uges"};
#define NF15O 38
static const char *F15_K[] = {"0", "1", "-1", "2", "2147483647", "2147483648", "-2147483648", "4294967295", "4294967296", "9223372036854775807", "-9223372036854775808", "31"};
#define NF15K 12
static uint64_t f15_count (int th) { return 3ull * NF15O * NF15K * NF15K; }
static void f15_render (uint64_t idx) {
  int k2 = idx % NF15K; idx /= NF15K; int k1 = idx % NF15K; idx /= NF15K; int op = idx % NF15O; int form = (int) (idx / NF15O);
  begin_func (""); S ("  mov r0, %s\n  mov r1, %s\n", F15_K[k1], F15_K[k2]);
  if (form == 1) S ("  adds r0, r0, 1\n  sub r1, r1, 1\n");         /* constants produced by folded 32-/64-bit arithmetic */
  if (form == 2 && op >= 18) { const char *o = F15_OP[op]; S ("  mov r2, 0\n  %sb%s L1, r0, r1\n  mov r2, 1\nL1:\n", o[0] == 'u' ? "u" : "", o[0] == 'u' ? o + 1 : o); } /* the compare as a branch */
  else S ("  %s r2, r0, r1\n", F15_OP[op]);
  S ("  add r, r2, a\n  ret r\n"); end_func ();
}
static int f15_ninputs (uint64_t idx) { return 2; }
static pinput f15_input (uint64_t idx, int i) { pinput p = {i ? 1000 : 0, 0, -1, 0, 0}; return p; }

/* =============================== F16: constant as the FIRST operand, result extended, straight-line and inside a loop =============================== */
static const char *F16_EXT[] = {"ext8", "ext16", "ext32", "uext8", "uext16", "uext32"};
static uint64_t f16_count (int th) { return 2ull * 6 * NF15O * NF15K; }
static void f16_render (uint64_t idx) {
  int k = idx % NF15K; idx /= NF15K; int op = idx % NF15O; idx /= NF15O; int ex = idx % 6; int loop = (int) (idx / 6);
  begin_func ("i64:i, i64:s"); S ("  mov s, 0\n  mov i, 0\n");
  if (loop) S ("L1:\n");
  S ("  %s r0, %s, a\n  %s r1, r0\n  add s, s, r1\n", F15_OP[op], F15_K[k], F16_EXT[ex]);
  if (loop) S ("  add i, i, 1\n  blt L1, i, 3\n");
  S ("  ret s\n"); end_func ();
}
static int f16_ninputs (uint64_t idx) { return 6; }
static pinput f16_input (uint64_t idx, int i) { static const int64_t av[] = {0, 7, -1, 0x80, 0xffff8000ll, 0x123456789all}; pinput p = {av[i], 0, -1, 0, 0}; return p; }

/* =============================== F17: arithmetic with an identity constant (x+0, x*1, ...) on every operand form: link-time rewriting into moves =============================== */
static const char *F17_OP[] = {"add", "sub", "or", "xor", "lsh", "rsh", "ursh", "mul", "div", "udiv", "adds", "subs", "ors", "xors", "muls", "lshs"};
static const int F17_ONE[] = {0, 0, 0, 0, 0, 0, 0, 1, 1, 1, 0, 0, 0, 0, 1, 0};
#define NF17O 16
static const char *F17_LOC[] = {"r0", "i64:8(m)", "i64:(m,k,8)", "i32:16(m)", "u8:40(m,k)", "i64:24(q)"};
#define NF17L 6
static uint64_t f17_count (int th) { return (uint64_t) NF17O * NF17L * NF17L * 2; }
static void f17_render (uint64_t idx) {
  int comm = idx % 2; idx /= 2; int src = idx % NF17L; idx /= NF17L; int dst = idx % NF17L; int op = (int) (idx / NF17L);
  begin_func (""); S ("  mov k, 2\n  mov r0, a\n  mov i64:8(m), b\n  mov i64:16(m), a\n  mov i64:24(q), 77\n");
  if (comm && (op <= 0 || op == 2 || op == 3 || op == 7 || op == 10 || op >= 12)) S ("  %s %s, %d, %s\n", F17_OP[op], F17_LOC[dst], F17_ONE[op], F17_LOC[src]); /* constant first (commutative ops only) */
  else S ("  %s %s, %s, %d\n", F17_OP[op], F17_LOC[dst], F17_LOC[src], F17_ONE[op]);
  S ("  mov r, r0\n  add r, r, i64:8(m)\n  xor r, r, i64:16(m)\n  add r, r, i64:24(q)\n  ret r\n"); end_func ();
}
static int f17_ninputs (uint64_t idx) { return 6; }
static pinput f17_input (uint64_t idx, int i) { static const int64_t av[] = {0, 7, -1, 0x80, 0xffff8000ll, 0x123456789all}; pinput p = {av[i], av[5 - i], -1, 0, 0}; return p; }

/* =============================== F18: stores through a pointer that moves in a loop, and stores through the same pointer after the loop =============================== */
static uint64_t f18_count (int th) { return 3 * 2 * 4 * 2 * 2 * 2 * 2; }
static void f18_render (uint64_t idx) {
  static const char *T[] = {"i64", "i32", "u8"}, *PT[] = {"i64", "u8"};
  int ty = idx % 3; idx /= 3; int brk = idx % 2; idx /= 2; int post = idx % 4; idx /= 4; int pty = idx % 2; idx /= 2; int val = idx % 2; idx /= 2; int pre = idx % 2; idx /= 2; int rd = (int) idx;
  begin_func ("i64:t, i64:e"); S ("  mov t, m\n  add e, m, 24\n");
  if (pre) S ("  mov %s:(t), 77\n", T[ty]);
  S ("L1:\n  mov %s:(t), %s\n", T[ty], val ? "a" : "0");
  if (brk == 0) S ("  beq E1, t, e\n  add t, t, 8\n  jmp L1\n");                 /* leave before the pointer moves: the pointer after the loop is the last one stored through */
  else S ("  add t, t, 8\n  ble L1, t, e\n");                                    /* leave after the pointer moved */
  S ("E1:\n");
  if (rd) S ("  mov r1, %s:(t)\n", PT[pty]);                                      /* a load through the pointer between the loop and the later store */
  if (post < 3) S ("  mov %s:%d(t), b\n", PT[pty], post == 0 ? 0 : post == 1 ? -8 : 8);
  S ("  mov r, i64:(m)\n  add r, r, i64:24(m)\n"); if (rd) S ("  add r, r, r1\n"); S ("  ret r\n"); end_func ();
}
static int f18_ninputs (uint64_t idx) { return 4; }
static pinput f18_input (uint64_t idx, int i) { pinput p = {i & 1 ? 0x1122334455667788ll : 0, i & 2 ? -1 : 5, -1, 0, 0}; return p; }

/* =============================== F19: functions with several results and several ret insns returning the same registers in different orders =============================== */
static const char *F19_R2[] = {"u, v", "v, u", "u, u", "v, v", "u, w", "w, u"};
static uint64_t f19_count (int th) { return 2 * 6 * 6 * 2; }
static void f19_render (uint64_t idx) {
  int inl = idx % 2; idx /= 2; int last = idx % 6; idx /= 6; int first = idx % 6; int three = (int) (idx / 6);
  ptl = 0; S ("%s", PRELUDE);
  if (three) /* narrow result types: every ret extends */
    S ("p_g: proto i32, u8, i64:u, i64:v, i64:c\ng: func i32, u8, i64:u, i64:v, i64:c\n  local i64:w\n  add w, u, v\n  add w, w, 0xfffffff80\n  add u, u, 0x7fffff00\n  add v, v, 0xf0\n  bf G1, c\n  ret %s\nG1:\n  ret %s\nendfunc\n", F19_R2[first], F19_R2[last]);
  else S ("p_g: proto i64, i64, i64:u, i64:v, i64:c\ng: func i64, i64, i64:u, i64:v, i64:c\n  local i64:w\n  add w, u, v\n  bf G1, c\n  ret %s\nG1:\n  ret %s\nendfunc\n", F19_R2[first], F19_R2[last]);
  S ("f: func i64, i64:a, i64:b, p:m, p:q, d:x, d:y\n  local i64:r, i64:r0, i64:r1, i64:r2, i64:c\n  and c, b, 1\n  mov r2, 0\n");
  S ("  %s p_g, g, r0, r1%s, a, b, c\n  mul r, r0, 7\n  add r, r, r1\n  mul r, r, 5\n  add r, r, r2\n  ret r\n", inl ? "inline" : "call", ""); end_func ();
}
static int f19_ninputs (uint64_t idx) { return 4; }
static pinput f19_input (uint64_t idx, int i) { pinput p = {i & 1 ? 100 : 3, i & 2 ? 41 : 8, -1, 0, 0}; return p; }

/* =============================== F20: the address of a variable (addr, addr8/16/32) and accesses of every width and offset inside the addressed value =============================== */
typedef struct { const char *t; int size, disp; } f20_acc;
static const f20_acc F20_I[] = { /* ordered by the width of the addressed value that contains them */
  {"i8", 1, 0}, {"u8", 1, 0},                                                                 /* addr8: 2 */
  {"i8", 1, 1}, {"u8", 1, 1}, {"i16", 2, 0}, {"u16", 2, 0},                                   /* addr16: 6 */
  {"i8", 1, 3}, {"u8", 1, 3}, {"i16", 2, 2}, {"u16", 2, 2}, {"i32", 4, 0}, {"u32", 4, 0},     /* addr32: 12 */
  {"i8", 1, 7}, {"u8", 1, 7}, {"i16", 2, 6}, {"i32", 4, 4}, {"u32", 4, 4}, {"i64", 8, 0}};    /* addr: 18 */
static const int F20_NACC[] = {18, 12, 6, 2};
static const char *F20_ADDR[] = {"addr", "addr32", "addr16", "addr8"}, *F20_MASK[] = {"mov", "uext32", "uext16", "uext8"};
static const f20_acc F20_D[] = {{"d", 8, 0}, {"i64", 8, 0}, {"i32", 4, 0}, {"i32", 4, 4}, {"f", 4, 0}, {"f", 4, 4}, {"u8", 1, 7}};
#define NF20D 7
static uint64_t f20_sub (int k) { uint64_t n = 2 * F20_NACC[k] + 1; return n * n; }
static uint64_t f20_count (int th) { uint64_t n = 0; for (int k = 0; k < 4; k++) n += f20_sub (k); n += (2 * NF20D + 1) * (2 * NF20D + 1); return 3 * n; }
static void f20_access (int fp, int k, int a, int second) { /* a: 0 none, odd store, even load */
  if (a == 0) return;
  const f20_acc *ac = fp ? &F20_D[(a - 1) / 2] : &F20_I[(a - 1) / 2]; int ld = (a - 1) % 2; char mem[40]; snprintf (mem, sizeof mem, "%s:%d(%s)", ac->t, ac->disp, second ? "p1" : "p0");
  if (ac->t[0] == 'd') { if (ld) S ("  dmov d1, %s\n  dmov d:%d(m), d1\n", mem, 96 + 8 * second); else S ("  dmov %s, y\n", mem); }
  else if (ac->t[0] == 'f') { if (ld) S ("  fmov f1, %s\n  fmov f:%d(m), f1\n", mem, 96 + 8 * second); else S ("  d2f f1, y\n  fmov %s, f1\n", mem); }
  else { if (ld) S ("  mov t, %s\n  mul r, r, 31\n  add r, r, t\n", mem); else S ("  mov %s, b\n", mem); }
}
static void f20_render (uint64_t idx) {
  int shape = idx % 3; idx /= 3; int k, fp = 0; for (k = 0; k < 4; k++) { if (idx < f20_sub (k)) break; idx -= f20_sub (k); } if (k == 4) { fp = 1; k = 0; }
  int n = fp ? 2 * NF20D + 1 : 2 * F20_NACC[k] + 1, a1 = (int) (idx % n), a2 = (int) (idx / n);
  begin_func ("i64:v, i64:p0, i64:p1, i64:t, i64:i, d:dv, d:d1, f:f1");
  S ("  mov r, 0\n"); if (fp) S ("  dmov dv, x\n  addr p0, dv\n"); else S ("  mov v, a\n  %s p0, v\n", F20_ADDR[k]);
  if (shape == 1) S ("  mov p1, p0\n"); /* shape 1: the address goes through a copy */
  f20_access (fp, k, a1, 0);
  if (shape == 2) S ("  mov i, 0\nL1:\n"); /* shape 2: the second access is in a loop and the stored value changes */
  f20_access (fp, k, a2, shape == 1);
  if (shape == 2) S ("  add b, b, 0x0101010101010101\n  add i, i, 1\n  blt L1, i, 2\n");
  if (fp) S ("  dmov d:64(m), dv\n"); else S ("  %s t, v\n  mov i64:64(m), t\n", F20_MASK[k]);
  S ("  ret r\n"); end_func ();
}
static int f20_ninputs (uint64_t idx) { return 9; }
static pinput f20_input (uint64_t idx, int i) { static const int64_t av[] = {0x1122334455667788ll, -1, 0x100}, bv[] = {5, -2, (int64_t) 0x8000000080008080ull}; static const double xv[] = {1.5, -0.0, 1e300};
  pinput p = {av[i % 3], bv[i / 3], -1, xv[i % 3], xv[i / 3] * 3}; return p; }

/* =============================== F21: stack areas of inlined callees: top / dynamic alloca, block arguments, code behind the ret; call sites in loops (also loops that start at the first insn of the caller) =============================== */
static uint64_t f21_count (int th) { return 6 * 2 * 5 * 2; }
static void f21_render (uint64_t idx) {
  int inl = idx % 2; idx /= 2; int cs = idx % 5; idx /= 5; int big = idx % 2; int k = (int) (idx / 2); long sz = big ? 65536 : 32;
  ptl = 0; S ("%s", PRELUDE);
  if (k == 5) S ("p_g: proto i64, blk:%ld(bp), i64:u\ng: func i64, blk:%ld(bp), i64:u\n  local i64:t\n  mov t, i64:(bp)\n  add t, t, i64:%ld(bp)\n  add t, t, u\n  mov i64:(bp), 99\n  mov i64:%ld(bp), 98\n  ret t\nendfunc\n", sz, sz, sz - 8, sz - 8);
  else {
    S ("p_g: proto i64, i64:u\ng: func i64, i64:u\n  local i64:p, i64:t, i64:n, i64:dp\n");
    if (k == 0 || k == 1 || k == 3 || k == 4) S ("  alloca p, %ld\n", sz);
    if (k == 2 || k == 4) S ("  and n, u, 15\n  add n, n, %ld\n  alloca dp, n\n  mov i64:(dp), u\n  mov i64:%ld(dp), 5\n", sz, sz - 8);
    if (k == 2) S ("  mov p, dp\n");
    S ("  mov i64:(p), u\n  mov i64:%ld(p), 5\n", sz - 8);
    if (k == 1) S ("  add p, p, 8\n  mov i64:(p), 3\n  mov t, i64:-8(p)\n  add t, t, i64:(p)\n");
    else S ("  mov t, i64:(p)\n  add t, t, i64:%ld(p)\n", sz - 8);
    if (k >= 2) S ("  bgt COLD, u, 100\nBACK:\n  add t, t, 1\n");
    if (k == 4) S ("  add t, t, i64:(dp)\n");
    S ("  ret t\n");
    if (k >= 2) S ("COLD:\n  mov t, 7\n  jmp BACK\n");
    S ("endfunc\n");
  }
  S ("f: func i64, i64:a, i64:b, p:m, p:q, d:x, d:y\n  local i64:r, i64:r0, i64:r1, i64:cp, i64:cb\n");
  char arg[64]; if (k == 5) snprintf (arg, sizeof arg, "blk:%ld(cb), ", sz); else arg[0] = 0;
  const char *c = inl ? "inline" : "call";
  if (cs == 3) S ("  alloca cp, %ld\n  mov i64:(cp), a\n  add cp, cp, 8\n  mov i64:(cp), b\n", k == 5 ? sz + 32 : 32L);
  if (k == 5) { if (cs == 3) S ("  add cb, cp, 24\n"); else S ("  alloca cb, %ld\n", sz); S ("  mov i64:(cb), 11\n  mov i64:%ld(cb), 12\n", sz - 8); }
  switch (cs) {
  case 0: S ("  %s p_g, g, r0, %sa\n  mov r, r0\n", c, arg); break;
  case 1: S ("L0:\n  %s p_g, g, r0, %sb\n  add a, a, r0\n  sub b, b, 1\n  bgt L0, b, 0\n  mov r, a\n", c, arg); break; /* without a block argument the label is the first insn of f */
  case 2: S ("  mov r, 0\nL0:\n  %s p_g, g, r0, %sb\n  add r, r, r0\n  add r, r, a\n  sub b, b, 1\n  bgt L0, b, 0\n", c, arg); break;
  case 3: S ("  %s p_g, g, r0, %sa\n  mov r, i64:-8(cp)\n  add r, r, i64:(cp)\n  mul r, r, 3\n  add r, r, r0\n", c, arg); break;
  default: S ("  %s p_g, g, r0, %sa\n  %s p_g, g, r1, %sb\n  mul r, r0, 5\n  add r, r, r1\n", c, arg, c, arg); break;
  }
  if (k == 5) S ("  add r, r, i64:(cb)\n  add r, r, i64:%ld(cb)\n", sz - 8);
  S ("  ret r\n"); end_func ();
}
static int f21_ninputs (uint64_t idx) { return 2; }
static pinput f21_input (uint64_t idx, int i) { int big = (idx / 10) % 2; pinput p = {i ? 200 : 7, big ? 400 : 3, -1, 0, 0}; return p; }

/* =============================== F22: a load, two stores with alias annotations in a later block, and the load again: availability of the first load across blocks =============================== */
static uint64_t f22_count (int th) { return 12 * 12 * 4 * 3; }
static void f22_store (int st, const char *val) {
  static const char *T[] = {"i8", "i32", "i64"}, *A[] = {"(m)", "(m):x", "(q)", "(q):y"}; /* alias x only on buffer m, y only on buffer q (q is the other buffer for every input): different alias sets never overlap */
  S ("  mov %s:%s, %s\n", T[st % 3], A[st / 3], val);
}
static void f22_render (uint64_t idx) {
  int shape = idx % 3; idx /= 3; int ld = idx % 4; idx /= 4; int s2 = idx % 12; int s1 = (int) (idx / 12);
  const char *lt = ld & 1 ? "i64" : "i32", *la = ld & 2 ? "(m):x" : "(m)";
  begin_func (""); S ("  mov r2, 0\n  mov r0, %s:%s\n", lt, la);
  if (shape != 2) S ("  bf S1, a\n  add r2, r2, 1\nS1:\n");
  f22_store (s1, "b"); f22_store (s2, "7");
  if (shape != 1) S ("  bf S2, a\n  add r2, r2, 2\nS2:\n");
  S ("  mov r1, %s:%s\n  mul r, r0, 3\n  add r, r, r1\n  add r, r, r2\n  ret r\n", lt, la); end_func ();
}
static int f22_ninputs (uint64_t idx) { return 4; }
static pinput f22_input (uint64_t idx, int i) { pinput p = {i & 1, i & 2 ? -2 : 5, -1, 0, 0}; return p; }

/* =============================== F23: an alloca address that reaches a callee after arithmetic (compressed pointer), as an argument or through memory; the callee reads a store that is overwritten after the call =============================== */
static const char *F23_L[][2] = { /* launder in the caller, undo in the callee (%s: destination, source) */
  {"  ursh key, fp, 3\n", "  lsh t, k, 3\n"}, {"  rsh key, fp, 3\n", "  lsh t, k, 3\n"}, {"  udiv key, fp, 8\n", "  mul t, k, 8\n"}, {"  div key, fp, 8\n", "  mul t, k, 8\n"},
  {"  neg key, fp\n", "  neg t, k\n"}, {"  mul key, fp, -1\n", "  mul t, k, -1\n"}, {"  xor key, fp, 0x5a5a\n", "  xor t, k, 0x5a5a\n"}, {"  add key, fp, 1000\n", "  sub t, k, 1000\n"},
  {"  lsh key, fp, 1\n", "  ursh t, k, 1\n"}, {"  ursh key, fp, 4\n  or key, key, 0\n", "  lsh t, k, 4\n"}, {"  mov key, fp\n", "  mov t, k\n"}};
#define NF23L 11
static uint64_t f23_count (int th) { return NF23L * 2 * 2 * 2; }
static void f23_render (uint64_t idx) {
  int two = idx % 2; idx /= 2; int ty = idx % 2; idx /= 2; int via = idx % 2; int l = (int) (idx / 2); const char *T = ty ? "i32" : "i64";
  ptl = 0; S ("%s", PRELUDE);
  S ("p_rd: proto i64, i64:k\nrd: func i64, i64:k\n  local i64:t, i64:v\n"); if (via) S ("  mov k, i64:(k)\n"); S ("%s  mov v, %s:(t)\n  ret v\nendfunc\n", F23_L[l][1], T);
  S ("f: func i64, i64:a, i64:b, p:m, p:q, d:x, d:y\n  local i64:r, i64:r0, i64:r1, i64:fp, i64:key, i64:fa\n  alloca fp, 16\n%s", F23_L[l][0]);
  if (via) S ("  mov i64:(m), key\n  mov key, m\n");
  S ("  mov %s:(fp), a\n  mov fa, rd\n  call p_rd, fa, r0, key\n", T);
  if (two) S ("  mov %s:(fp), b\n  call p_rd, fa, r1, key\n  mul r0, r0, 3\n  add r0, r0, r1\n", T);
  S ("  mov %s:(fp), 0\n  mov r, %s:(fp)\n  add r, r, r0\n", T, T); if (via) S ("  mov i64:(m), 0\n"); /* the key is an address: not part of the compared memory */
  S ("  ret r\n"); end_func ();
}
static int f23_ninputs (uint64_t idx) { return 2; }
static pinput f23_input (uint64_t idx, int i) { pinput p = {i ? -5 : 42, 17, -1, 0, 0}; return p; }

/* =============================== F24: loops with loop-carried variables that the optimizer finds unreachable or whose inner branch it folds (constants known only after value numbering) =============================== */
static uint64_t f24_count (int th) { return 2 * 2 * 2 * 4 * 2 * 2; }
static void f24_render (uint64_t idx) {
  static const char *K[] = {"5", "0", "c", "a"};
  int l7 = idx % 2; idx /= 2; int l1 = idx % 2; idx /= 2; int k = idx % 4; idx /= 4; int br2 = idx % 2; idx /= 2; int br1 = idx % 2; int g = (int) (idx / 2);
  begin_func ("i64:v0, i64:v5, i64:c, i64:i, i64:t, i64:u");
  S ("  mov v0, 1\n  mov v5, 1\n  mov c, %d\n  %s L2, c\n", g, br1 ? "bt" : "bf");
  if (l1) S ("L1:\n"); S ("  jmp L3\nL2:\n  mov i, 0\nL4:\n  %s L8, %s\n", br2 ? "bt" : "bf", K[k]);
  if (l7) S ("L7:\n  jmp L9\n");
  S ("L8:\n  add t, a, 3\n  mov v0, t\nL9:\n  subs u, v0, 1\n  mov v5, u\n  adds i, i, 1\n  blts L4, i, 2\nL3:\n  mul r, v0, 100\n  add r, r, v5\n  ret r\n"); end_func ();
}
static int f24_ninputs (uint64_t idx) { return 2; }
static pinput f24_input (uint64_t idx, int i) { pinput p = {i ? 7 : 0, 0, -1, 0, 0}; return p; }

int progfam_thorough;
static const family FAMILIES[] = {
  {"F1a-ext-chains", f1a_count, f1a_render, in_intgrid_n, in_intgrid},
  {"F1b-binary-chains", f1b_count, f1b_render, in_intgrid_n, in_intgrid},
  {"F1c-compare-chains", f1c_count, f1c_render, in_intgrid_n, in_intgrid},
  {"F7-overflow", f7_count, f7_render, in_intgrid_n, in_intgrid},
  {"F2-memory", f2_count, f2_render, f2_ninputs, f2_input},
  {"F3-cfg", f3_count, f3_render, f3_ninputs, f3_input},
  {"F3r-cfg3-reduced", f3r_count, f3r_render, f3_ninputs, f3_input},
  {"F3u-cold-traps", f3u_count, f3u_render, f3u_ninputs, f3u_input},
  {"F4-calls", f4_count, f4_render, in_intgrid_n, in_intgrid},
  {"F5-fp", f5_count, f5_render, f5_ninputs, f5_input, f5_mask},
  {"F6-pressure", f6_count, f6_render, f6_ninputs, f6_input},
  {"F8-loops-memory", f8_count, f8_render, f8_ninputs, f8_input},
  {"F9-inlining", f9_count, f9_render, f9_ninputs, f9_input},
  {"F10-branch-rewrites", f10_count, f10_render, f10_ninputs, f10_input},
  {"F11-fp-compares", f11_count, f11_render, f11_ninputs, f11_input},
  {"F12-hard-register-variables", f12_count, f12_render, in_intgrid_n, in_intgrid},
  {"F13-loop-carried-copies", f13_count, f13_render, f13_ninputs, f13_input},
  {"F14-structured-loops", f14_count, f14_render, f13_ninputs, f13_input},
  {"F15-constant-operands", f15_count, f15_render, f15_ninputs, f15_input},
  {"F16-constant-first-extended", f16_count, f16_render, f16_ninputs, f16_input},
  {"F17-identity-constants", f17_count, f17_render, f17_ninputs, f17_input},
  {"F18-loop-pointer-stores", f18_count, f18_render, f18_ninputs, f18_input},
  {"F19-multiple-results-rets", f19_count, f19_render, f19_ninputs, f19_input},
  {"F20-variable-address", f20_count, f20_render, f20_ninputs, f20_input},
  {"F21-inlined-stack-areas", f21_count, f21_render, f21_ninputs, f21_input},
  {"F22-load-availability-across-blocks", f22_count, f22_render, f22_ninputs, f22_input},
  {"F23-laundered-alloca-address", f23_count, f23_render, f23_ninputs, f23_input},
  {"F24-unreachable-loops", f24_count, f24_render, f24_ninputs, f24_input},
  /* thorough only, 1.5e8 programs: kept last so that a deadline cuts this family and no other */
  {"F3t-cfg3-full", f3t_count, f3t_render, f3_ninputs, f3_input},
};
#define NFAM ((int) (sizeof (FAMILIES) / sizeof (FAMILIES[0])))
#endif
