/* C18: independent contexts can be used from different threads without interference.
   Three exhaustive pieces, selected by VP_MODE:
   watch    - the library is loaded as a shared object, its writable segments (.data/.bss) are made read-only and every context workload
              (create, scan, build through the API, load, link with every interface, interpret, generate at -O0..-O3, c2mir compile,
              write/read binary, finish) is run while a second context is alive.  Every write of library code to library-owned static
              memory faults, is recorded with its symbol (single-stepped through with the trap flag, so all of them are enumerated) and is
              a process-wide mutable location: with none, contexts share no library memory at all and no interleaving can couple them.
   schedule - two (thorough: three) threads run context workloads on their own contexts; the allocator and code-allocator callbacks of
              each context are scheduling points of a cooperative scheduler; every schedule with at most 1 (thorough 2) preemptions is
              executed and every thread must obtain the results it obtains alone.
   The free-running ThreadSanitizer pass over the same workloads lives in checks/c18_threads.py.  DESIGN.md §3 C18. */
#define _GNU_SOURCE
#include "vp.h"
#include "mir.h"
#include "mir-gen.h"
#include "c2mir/c2mir.h"
#include <stdlib.h>
#include <string.h>
#include <stdio.h>
#include <signal.h>
#include <setjmp.h>
#include <unistd.h>
#include <pthread.h>
#include <link.h>
#include <dlfcn.h>
#include <ucontext.h>
#include <sys/mman.h>

/* ---------------- workloads (each uses one context it owns) ---------------- */
static const char *PROG_A = "ma: module\nexport fa\nda: i64 3, 4\nfa: func i64, i64:n\n  local i64:r, i64:i, i64:p, i64:p0\n  mov r, 0\n  mov i, 0\n  mov p, da\nL1:\n  add r, r, i64:(p)\n  mul r, r, 3\n  add r, r, i\n  addo r, r, 9223372036854775000\n  bno L2\n  xor r, r, 5\nL2:\n  umulos p0, i, 70000\n  ubno L3\n  add r, r, 1\nL3:\n  add i, i, 1\n  blt L1, i, n\n  ret r\nendfunc\nendmodule\n";
static const char *PROG_B = "mb: module\nexport fb\nimport fa\npa: proto i64, i64:n\nfb: func i64, i64:n\n  local i64:r, i64:t, d:x\n  call pa, fa, r, n\n  i2d x, r\n  dmul x, x, 0.5\n  d2i t, x\n  add r, r, t\n  ret r\nendfunc\nendmodule\n";
static const char *CSRC = "static int sq (int x) { return x * x; }\nstruct P { int a; double d; };\n"
  /* void pointers from alloca and label addresses, conditional with a void * arm, qualifiers, bit-fields, a string, varargs-free libc calls: more of c2mir's type machinery */
  "struct B { unsigned f:3; int g:5; const char *s; };\nstatic int aux (int n) { char *q = __builtin_alloca (n + 8); const char *cs = \"xyz\"; void *lab = &&L; q[0] = 42; const void *v = n ? (const void *) cs : (void *) q;\n"
  "  const char *w = n ? __builtin_alloca (4) : cs; volatile int vi = 0; const volatile int *pv = n ? __builtin_alloca (8) : &vi; const void *lv = n ? &&L : (const void *) cs; (void) w; (void) pv; (void) lv;\n"
  "  struct B b = {5, -3, cs}; goto *lab; L: return q[0] + b.f + b.g + (v != 0) + (int) sizeof (void *) + b.s[1]; }\n"
  "int work (int n) { struct P p = {n, 0.5}; int s = 0; for (int i = 0; i < n; i++) s += sq (i) + (int) (p.d * i); switch (n & 3) { case 0: s++; break; case 1: s += 2; break; default: s -= 1; } return s + p.a + aux (n); }\n";
typedef struct { const char *s; size_t pos; } sreader;
static int sgetc (void *d) { sreader *r = d; return r->s[r->pos] ? (unsigned char) r->s[r->pos++] : EOF; }
static __thread uint8_t *wbuf; static __thread size_t wlen, wcap, rpos;
static int wr_byte (MIR_context_t ctx, uint8_t b) { if (wlen == wcap) { wcap = wcap ? wcap * 2 : 4096; wbuf = realloc (wbuf, wcap); } wbuf[wlen++] = b; return 1; }
static int rd_byte (MIR_context_t ctx) { return rpos < wlen ? wbuf[rpos++] : EOF; }
static MIR_item_t find_func (MIR_context_t ctx, const char *name) {
  MIR_item_t f = NULL;
  for (MIR_module_t m = DLIST_HEAD (MIR_module_t, *MIR_get_module_list (ctx)); m; m = DLIST_NEXT (MIR_module_t, m))
    for (MIR_item_t it = DLIST_HEAD (MIR_item_t, m->items); it; it = DLIST_NEXT (MIR_item_t, it)) if (it->item_type == MIR_func_item && !strcmp (it->u.func->name, name)) f = it;
  return f;
}
#define NWORK 8
static const char *WNAME[NWORK] = {"scan+interp", "scan+gen-O0", "scan+gen-O2", "scan+gen-O3", "scan+lazy", "scan+lazy-bb", "c2mir+gen", "api+binary-io+interp"};
/* runs workload w in a fresh context created with the given allocators; returns a result hash that must not depend on anything but w and arg */
static uint64_t workload (int w, int64_t arg, MIR_alloc_t alloc, MIR_code_alloc_t calloc_) {
  MIR_context_t ctx = MIR_init2 (alloc, calloc_); uint64_t h = 17 + w; MIR_val_t v, r;
  if (w <= 5) {
    MIR_scan_string (ctx, PROG_A); MIR_scan_string (ctx, PROG_B);
    for (MIR_module_t m = DLIST_HEAD (MIR_module_t, *MIR_get_module_list (ctx)); m; m = DLIST_NEXT (MIR_module_t, m)) MIR_load_module (ctx, m);
    if (w == 0) MIR_link (ctx, MIR_set_interp_interface, NULL);
    else { MIR_gen_init (ctx); MIR_gen_set_optimize_level (ctx, w == 1 ? 0 : w == 3 ? 3 : 2); MIR_link (ctx, w == 4 ? MIR_set_lazy_gen_interface : w == 5 ? MIR_set_lazy_bb_gen_interface : MIR_set_gen_interface, NULL); }
    MIR_item_t fb = find_func (ctx, "fb");
    for (int k = 0; k < 3; k++) {
      if (w == 0) { v.i = arg + k; MIR_interp_arr (ctx, fb, &r, 1, &v); } else r.i = ((int64_t (*) (int64_t)) fb->addr) (arg + k);
      h = vp_hash_u64 (h, (uint64_t) r.i);
    }
    if (w != 0) MIR_gen_finish (ctx);
  } else if (w == 6) {
    struct c2mir_options o; memset (&o, 0, sizeof o); o.message_file = NULL; sreader rd = {CSRC, 0};
    c2mir_init (ctx);
    if (!c2mir_compile (ctx, &o, sgetc, &rd, "work.c", NULL)) h = vp_hash_u64 (h, 0xdead);
    c2mir_finish (ctx);
    for (MIR_module_t m = DLIST_HEAD (MIR_module_t, *MIR_get_module_list (ctx)); m; m = DLIST_NEXT (MIR_module_t, m)) MIR_load_module (ctx, m);
    MIR_load_external (ctx, "memset", memset); MIR_load_external (ctx, "memcpy", memcpy); MIR_load_external (ctx, "memmove", memmove);
    MIR_gen_init (ctx); MIR_link (ctx, MIR_set_gen_interface, NULL);
    MIR_item_t f = find_func (ctx, "work"); if (f) { int rr = ((int (*) (int)) f->addr) ((int) arg + 5); h = vp_hash_u64 (h, (uint64_t) rr); }
    MIR_gen_finish (ctx);
  } else {
    MIR_type_t rt = MIR_T_I64; MIR_new_module (ctx, "mapi"); MIR_item_t f = MIR_new_func (ctx, "fapi", 1, &rt, 1, MIR_T_I64, "x");
    MIR_reg_t x = MIR_reg (ctx, "x", f->u.func), q = MIR_new_func_reg (ctx, f->u.func, MIR_T_I64, "q");
    MIR_append_insn (ctx, f, MIR_new_insn (ctx, MIR_MUL, MIR_new_reg_op (ctx, q), MIR_new_reg_op (ctx, x), MIR_new_int_op (ctx, 7)));
    MIR_append_insn (ctx, f, MIR_new_insn (ctx, MIR_SUB, MIR_new_reg_op (ctx, q), MIR_new_reg_op (ctx, q), MIR_new_int_op (ctx, 2)));
    MIR_append_insn (ctx, f, MIR_new_ret_insn (ctx, 1, MIR_new_reg_op (ctx, q))); MIR_finish_func (ctx); MIR_finish_module (ctx);
    wlen = rpos = 0; MIR_write_with_func (ctx, wr_byte); h = vp_hash_bytes (h, wbuf, wlen);
    MIR_context_t c2 = MIR_init2 (alloc, calloc_); MIR_read_with_func (c2, rd_byte);
    for (MIR_module_t m = DLIST_HEAD (MIR_module_t, *MIR_get_module_list (c2)); m; m = DLIST_NEXT (MIR_module_t, m)) MIR_load_module (c2, m);
    MIR_link (c2, MIR_set_interp_interface, NULL); v.i = arg; MIR_interp_arr (c2, find_func (c2, "fapi"), &r, 1, &v); h = vp_hash_u64 (h, (uint64_t) r.i);
    char *txt = NULL; size_t tl = 0; FILE *mf = open_memstream (&txt, &tl); MIR_output (c2, mf); fclose (mf); h = vp_hash_bytes (h, txt, tl); free (txt);
    MIR_finish (c2);
  }
  MIR_finish (ctx);
  return h;
}

/* ================= mode watch: writes to the library's static memory ================= */
#ifdef C18_WATCH
typedef struct { uintptr_t lo, hi; } seg;
static seg segs[8]; static int n_segs; static uintptr_t lib_base; static char lib_path[400];
/* static (non-exported) symbols are resolved through nm on the shared object */
typedef struct { uintptr_t a; char name[80]; } nsym; static nsym *NS; static size_t n_ns;
static void load_syms (void) {
  char cmd[500]; snprintf (cmd, sizeof cmd, "nm -n --defined-only '%s' 2>/dev/null", lib_path); FILE *f = popen (cmd, "r"); if (!f) return;
  char line[400]; size_t cap = 0;
  while (fgets (line, sizeof line, f)) { unsigned long a; char t; char nm[200]; if (sscanf (line, "%lx %c %199s", &a, &t, nm) != 3) continue;
    if (n_ns == cap) { cap = cap ? cap * 2 : 4096; NS = realloc (NS, cap * sizeof (nsym)); } NS[n_ns].a = a; snprintf (NS[n_ns].name, sizeof NS[n_ns].name, "%s", nm); n_ns++; }
  pclose (f);
}
static const char *sym_of (uintptr_t off, unsigned long *delta) { const char *r = "?"; *delta = 0; for (size_t i = 0; i < n_ns && NS[i].a <= off; i++) { r = NS[i].name; *delta = off - NS[i].a; } return r; }
static int phdr_cb (struct dl_phdr_info *info, size_t size, void *data) {
  if (!info->dlpi_name || !strstr (info->dlpi_name, "libmirwatch")) return 0;
  lib_base = info->dlpi_addr; snprintf (lib_path, sizeof lib_path, "%s", info->dlpi_name);
  for (int i = 0; i < info->dlpi_phnum; i++) if (info->dlpi_phdr[i].p_type == PT_LOAD && (info->dlpi_phdr[i].p_flags & PF_W) && n_segs < 8) {
    uintptr_t lo = info->dlpi_addr + info->dlpi_phdr[i].p_vaddr, hi = lo + info->dlpi_phdr[i].p_memsz;
    segs[n_segs].lo = lo & ~(uintptr_t) 4095; segs[n_segs].hi = (hi + 4095) & ~(uintptr_t) 4095; n_segs++; }
  return 0;
}
static void protect (int ro) { for (int i = 0; i < n_segs; i++) mprotect ((void *) segs[i].lo, segs[i].hi - segs[i].lo, ro ? PROT_READ : PROT_READ | PROT_WRITE); }
#define MAXW 4096
static struct { uintptr_t off; uintptr_t pc; int work; } W[MAXW]; static volatile int n_w; static volatile int cur_work; static volatile uintptr_t stepping_page;
static void on_segv (int sig, siginfo_t *si, void *uc_) {
  ucontext_t *uc = uc_; uintptr_t a = (uintptr_t) si->si_addr; int in = 0;
  for (int i = 0; i < n_segs; i++) if (a >= segs[i].lo && a < segs[i].hi) in = 1;
  if (!in) { signal (SIGSEGV, SIG_DFL); return; }
  int dup = 0; for (int i = 0; i < n_w; i++) if (W[i].off == a - lib_base) dup = 1;
  if (!dup && n_w < MAXW) { W[n_w].off = a - lib_base; W[n_w].pc = (uintptr_t) uc->uc_mcontext.gregs[REG_RIP]; W[n_w].work = cur_work; n_w++; }
  stepping_page = a & ~(uintptr_t) 4095; mprotect ((void *) stepping_page, 4096, PROT_READ | PROT_WRITE);
  uc->uc_mcontext.gregs[REG_EFL] |= 0x100; /* trap after the faulting instruction: the page is protected again there */
}
static void on_trap (int sig, siginfo_t *si, void *uc_) {
  ucontext_t *uc = uc_; uc->uc_mcontext.gregs[REG_EFL] &= ~0x100ll;
  if (stepping_page) { mprotect ((void *) stepping_page, 4096, PROT_READ); stepping_page = 0; }
}
void drv_init (int thorough) {}
uint64_t drv_ncases (void) { return 1; }
void drv_describe (uint64_t idx, char *buf, size_t n) { snprintf (buf, n, "C18 write-watch over the library's static memory, %d workloads with a second live context", NWORK); }
void drv_case (uint64_t idx) {
  dl_iterate_phdr (phdr_cb, NULL);
  if (!n_segs) { vp_fail ("harness", "libmirwatch.so writable segments not found"); return; }
  struct sigaction sa; memset (&sa, 0, sizeof sa); sa.sa_sigaction = on_segv; sa.sa_flags = SA_SIGINFO | SA_NODEFER; sigaction (SIGSEGV, &sa, NULL);
  sa.sa_sigaction = on_trap; sigaction (SIGTRAP, &sa, NULL);
  /* a first context stays alive during all workloads: state set up lazily by "the first context" is written before the watch starts only if it is
     written by MIR_init itself; everything later is seen */
  uint64_t bytes = 0; for (int i = 0; i < n_segs; i++) bytes += segs[i].hi - segs[i].lo;
  protect (1);
  MIR_context_t keep = MIR_init ();
  for (int rep = 0; rep < 2; rep++) for (int w = 0; w < NWORK; w++) { cur_work = w; uint64_t h = workload (w, 6, NULL, NULL); vp_outcome (h); }
  MIR_finish (keep);
  protect (0);
  vp_count ("watched_static_bytes", bytes); vp_count ("workload_runs", 2 * NWORK); vp_count ("static_locations_written", n_w); vp_nontrivial ();
  if (n_w) load_syms ();
  for (int i = 0; i < n_w; i++) {
    unsigned long so = 0, fo = 0; const char *sym = sym_of (W[i].off, &so), *fn = sym_of (W[i].pc - lib_base, &fo);
    vp_fail ("process-wide-mutable-state", "library static %s+%lu (offset %#lx) is written by %s+%lu during workload %s", sym, so, (unsigned long) W[i].off, fn, fo, WNAME[W[i].work]);
  }
  vp_sample ("%d workloads x 2 with a live second context; %llu bytes of library .data/.bss write-protected; %d distinct static locations written", NWORK, (unsigned long long) bytes, n_w);
}
#else
/* ================= mode schedule: bounded-preemption exploration at allocator callbacks ================= */
#define MAXT 3
static int nthreads = 2, bound = 1, free_running;
/* cooperative scheduler: exactly one thread runs; at a point the running thread consults the schedule */
static pthread_mutex_t mu = PTHREAD_MUTEX_INITIALIZER; static pthread_cond_t cv = PTHREAD_COND_INITIALIZER;
static int running, done[MAXT]; static uint64_t point_no; static __thread int me = -1;
#define MAXCH 64
static uint64_t sw_at[MAXCH]; static int sw_to[MAXCH]; static int n_sw, next_sw; /* schedule = list of (global point number, thread to switch to) */
static uint64_t total_points;
static void sched_point (void) {
  if (me < 0) return;
  pthread_mutex_lock (&mu);
  uint64_t p = point_no++;
  if (next_sw < n_sw && sw_at[next_sw] == p) { int to = sw_to[next_sw++]; if (!done[to]) { running = to; pthread_cond_broadcast (&cv); while (running != me) pthread_cond_wait (&cv, &mu); } }
  pthread_mutex_unlock (&mu);
}
static void *a_malloc (size_t n, void *ud) { sched_point (); return malloc (n); }
static void *a_calloc (size_t n, size_t s, void *ud) { sched_point (); return calloc (n, s); }
static void *a_realloc (void *p, size_t o, size_t n, void *ud) { sched_point (); return realloc (p, n); }
static void a_free (void *p, void *ud) { sched_point (); free (p); }
static void *c_map (size_t len, void *ud) { sched_point (); void *p = mmap (NULL, len, PROT_READ | PROT_EXEC, MAP_PRIVATE | MAP_ANONYMOUS, -1, 0); return p == MAP_FAILED ? NULL : p; }
static int c_unmap (void *p, size_t len, void *ud) { sched_point (); return munmap (p, len); }
static int c_protect (void *p, size_t len, MIR_mem_protect_t prot, void *ud) { sched_point (); return mprotect (p, len, prot == PROT_WRITE_EXEC ? PROT_READ | PROT_WRITE | PROT_EXEC : PROT_READ | PROT_EXEC); }
static int tw[MAXT]; static uint64_t tres[MAXT], alone[NWORK];
static void *thread_main (void *arg) {
  me = (int) (intptr_t) arg;
  if (free_running) { int id = me; me = -1; struct MIR_alloc al0 = {a_malloc, a_calloc, a_realloc, a_free, NULL}; struct MIR_code_alloc cal0 = {c_map, c_unmap, c_protect, NULL}; tres[id] = workload (tw[id], 6, &al0, &cal0); return NULL; }
  pthread_mutex_lock (&mu); while (running != me) pthread_cond_wait (&cv, &mu); pthread_mutex_unlock (&mu);
  struct MIR_alloc al = {a_malloc, a_calloc, a_realloc, a_free, NULL}; struct MIR_code_alloc cal = {c_map, c_unmap, c_protect, NULL};
  tres[me] = workload (tw[me], 6, &al, &cal);
  pthread_mutex_lock (&mu); done[me] = 1;
  for (int k = 1; k <= nthreads; k++) { int t = (me + k) % nthreads; if (!done[t]) { running = t; break; } }
  pthread_cond_broadcast (&cv); pthread_mutex_unlock (&mu);
  return NULL;
}
static uint64_t run_schedule (void) {
  pthread_t th[MAXT]; point_no = 0; next_sw = 0; running = 0; memset (done, 0, sizeof done);
  for (int t = 0; t < nthreads; t++) pthread_create (&th[t], NULL, thread_main, (void *) (intptr_t) t);
  for (int t = 0; t < nthreads; t++) pthread_join (th[t], NULL);
  return point_no;
}
/* case space: unordered... every ordered tuple of workloads for the threads; inside a case all schedules within the bound are enumerated */
static uint64_t ncase;
void drv_init (int thorough) { nthreads = 2; bound = thorough ? 2 : 1; if (getenv ("VP_C18_BOUND")) bound = atoi (getenv ("VP_C18_BOUND")); free_running = getenv ("VP_C18_FREE") != NULL; if (free_running) nthreads = 3; ncase = 1; for (int t = 0; t < nthreads; t++) ncase *= NWORK; }
uint64_t drv_ncases (void) { return ncase; }
void drv_describe (uint64_t idx, char *buf, size_t n) { size_t k = snprintf (buf, n, "C18 schedules of"); for (int t = 0; t < nthreads; t++) { k += snprintf (buf + k, n - k, " T%d=%s", t, WNAME[idx % NWORK]); idx /= NWORK; } snprintf (buf + k, n - k, " (<= %d preemptions at allocator callbacks)", bound); }
void drv_case (uint64_t idx) {
  static int have_alone; if (!have_alone) { have_alone = 1; for (int w = 0; w < NWORK; w++) alone[w] = workload (w, 6, NULL, NULL); }
  uint64_t x = idx; for (int t = 0; t < nthreads; t++) { tw[t] = x % NWORK; x /= NWORK; }
  uint64_t schedules = 0; char msg[200];
  if (free_running) { /* threads run concurrently without the scheduler: ThreadSanitizer judges the accesses, the results are still compared */
    for (int rep_ = 0; rep_ < 3; rep_++) { run_schedule (); for (int t = 0; t < nthreads; t++) if (tres[t] != alone[tw[t]]) { vp_fail ("thread-result-differs", "free-running thread %d (%s) obtained %#llx, alone %#llx", t, WNAME[tw[t]], (unsigned long long) tres[t], (unsigned long long) alone[tw[t]]); return; } }
    vp_count ("free_runs", 3); vp_nontrivial (); return; }
  /* 0 preemptions: run to completion in thread order */
  n_sw = 0; total_points = run_schedule (); schedules++;
  for (int t = 0; t < nthreads; t++) if (tres[t] != alone[tw[t]]) { vp_fail ("thread-result-differs", "thread %d (%s) obtained %#llx, alone %#llx, schedule without preemption", t, WNAME[tw[t]], (unsigned long long) tres[t], (unsigned long long) alone[tw[t]]); return; }
  /* with thread 0 running first, a preemption at point p switches to another thread; points are numbered globally in execution order.  To keep the
     enumeration finite and complete within the bound, preemption positions range over every point of the preemption-free run and a stride covers long runs */
  uint64_t stride = 1; int b = bound >= 2 && total_points <= 1400 ? 2 : bound >= 1 ? 1 : 0; /* two preemptions only where the run is short enough to enumerate all pairs */
  for (uint64_t p1 = 0; p1 < total_points; p1 += stride)
    for (int to1 = 1; to1 < nthreads; to1++) {
      n_sw = 1; sw_at[0] = p1; sw_to[0] = to1; uint64_t pts = run_schedule (); schedules++;
      for (int t = 0; t < nthreads; t++) if (tres[t] != alone[tw[t]]) { snprintf (msg, sizeof msg, "preemption at point %llu -> T%d", (unsigned long long) p1, to1); vp_fail ("thread-result-differs", "thread %d (%s) obtained %#llx, alone %#llx, schedule: %s", t, WNAME[tw[t]], (unsigned long long) tres[t], (unsigned long long) alone[tw[t]], msg); return; }
      if (b >= 2) for (uint64_t p2 = p1 + 1; p2 < pts; p2 += stride) for (int to2 = 0; to2 < nthreads; to2++) { if (to2 == to1) continue;
        n_sw = 2; sw_at[1] = p2; sw_to[1] = to2; run_schedule (); schedules++;
        for (int t = 0; t < nthreads; t++) if (tres[t] != alone[tw[t]]) { vp_fail ("thread-result-differs", "thread %d (%s) obtained %#llx, alone %#llx, schedule: preemptions at points %llu -> T%d and %llu -> T%d", t, WNAME[tw[t]], (unsigned long long) tres[t], (unsigned long long) alone[tw[t]], (unsigned long long) p1, to1, (unsigned long long) p2, to2); return; } }
    }
  vp_count ("schedules", schedules); vp_count ("scheduling_points", total_points); vp_count (b >= 2 ? "cases_with_2_preemptions" : "cases_with_1_preemption", 1); vp_nontrivial (); vp_outcome (vp_hash_u64 (tres[0], tres[1]));
  if (idx % 9 == 0) { char d[300]; drv_describe (idx, d, sizeof d); vp_sample ("%s: %llu schedules over %llu points", d, (unsigned long long) schedules, (unsigned long long) total_points); }
}
#endif
