"""C14 - loaded data items form contiguous, correctly initialised sections."""
from core import build, runner
SRCS = ["checks/c14_data_sections.c", "core/vp.c", "core/mirh.c", "core/refinterp.c"]

def run(tier):
    rep = runner.Report("C14", tier, "exploration")
    tot = 0; nt = 0; exh = True; samples = []
    for variant in (("prod", "asan") if tier == "thorough" else ("prod",)):
        exe = build.link_driver("c14", variant, SRCS, tus=("mir", "mir-gen"))
        res = runner.run_driver(exe, tier, "C14", case_timeout=30, deadline=2400, limit=None if variant == "prod" else 120000)
        rep.add_driver_result(res, "build=" + variant)
        tot += res["done"]; exh = exh and (res["exhaustive"] or variant == "asan")
        if variant == "prod": nt = res["nontrivial"]; samples = res["samples"]
    rep.coverage = dict(evaluations=tot, distinct_nontrivial=nt,
                        rule="case = a module whose data area is a sequence of 1..3 items over 42 item shapes (data of 9 element types with 1/3 elements, bss 0/1/7/8/9, ref to earlier/later/import/function +disp, four lref forms, expr of 8 result types) x {named, anonymous}, between two named sentinels; "
                             "after MIR_load_module + MIR_link the harness checks section heads, addr[k+1] == addr[k] + size[k], and the bytes (declared data, zeros, target address + disp, expression value, label address / difference after the function ran, jmpi through an lref lands on its label) under the interpreter and, for lref cases, gen -O2",
                        samples=samples, exhaustive=exh)
    rep.assumptions = ["asan build runs the first 120000 sequences in the thorough tier only (a section that is too short shows as a heap overflow)"]
    return rep.finish()
