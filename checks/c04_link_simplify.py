"""C04 - link-time simplification and inlining preserve the meaning of the program as written.
Oracle: refinterp executing the un-linked IR; engines: interpreter and generated code, linked by the normal library
and by a library built with both inlining thresholds 0 ("as if every call were executed as a real call")."""
import importlib
from core import build, runner
c01 = importlib.import_module("checks.c01_gen_vs_interp")

def run(tier):
    rep = runner.Report("C04", tier, "exploration")
    cov = {}
    tot_eval = tot_nt = 0
    exh = True
    samples = []
    for variant in ("prod", "noinl"):
        exe = build.link_driver("c01", variant, c01.SRCS, tus=("mir", "mir-gen"))
        res = runner.run_driver(exe, tier, "C04", env={"VP_MODE": "ref"}, case_timeout=8, deadline=1800 if tier == "thorough" else 900)
        rep.add_driver_result(res, "lib=" + variant)
        c = c01.coverage(res, "refinterp (before MIR_load_module), then MIR_interp and MIR_gen -O0..-O3 after MIR_link")
        cov[variant] = {k: c[k] for k in ("programs", "total_programs", "unspecified_skipped", "programs_per_family")}
        tot_eval += c["evaluations"]; tot_nt += c["distinct_nontrivial"]; exh = exh and c["exhaustive"]; samples += c["samples"][:3]
        cov[variant]["left_to_C01"] = res["stats"].get("generator_nontermination_class_left_to_C01", 0)
    rep.coverage = dict(evaluations=tot_eval, distinct_nontrivial=tot_nt,
                        rule="case = one complete program of a family in checks/progfam.h (incl. F9 callee x caller inlining features and F10 branch-rewrite patterns); "
                             "each is executed by refinterp on the un-linked module (meaning as written) and by interp + gen -O0..-O3 after MIR_link, with the normal library and with "
                             "a library whose inlining thresholds are 0; evaluations = (program,input,engine,library) executions compared with the reference",
                        per_library=cov, samples=samples, exhaustive=exh)
    rep.assumptions = ["refinterp is my transcription of MIR.md; unspecified behaviour is skipped", "call chains deeper than the families and va_* in inlined callees are not covered"]
    return rep.finish()
