"""C10 - textual MIR written by MIR_output scans back to the same module (text fixpoint, structure, execution)."""
import os
from core import build, runner
from gen import mirvocab

SRCS = ["checks/c10_roundtrip.c", "core/vp.c", "core/mirh.c", "core/refinterp.c"]

def run_mode(prop, tier, mode, what):
    rep = runner.Report(prop, tier, "exploration")
    wd = os.path.join(runner.VERIF, "build", "work"); os.makedirs(wd, exist_ok=True)
    cases = os.path.join(wd, "%s-cases-%s.txt" % (prop, tier))
    cs = mirvocab.cases(tier == "thorough")
    with open(cases, "w", encoding="latin-1") as f:
        f.write("\n".join(cs)); f.write("\n=====END\n")
    tot = dict(evaluations=0, nontrivial=0, executed=0)
    exh = True; samples = []; outcomes = set()
    for variant in ("prod", "asan"):
        exe = build.link_driver("c10", variant, SRCS, tus=("mir", "mir-gen"))
        res = runner.run_driver(exe, tier, prop, env={"VP_MODE": mode, "VP_CASES": cases}, case_timeout=60, deadline=1500)
        rep.add_driver_result(res, "build=" + variant)
        tot["evaluations"] += res["done"]; tot["executed"] += res["stats"].get("executed", 0); exh = exh and res["exhaustive"]
        if variant == "prod":
            tot["nontrivial"] = res["nontrivial"]; samples = res["samples"]; outcomes = res["outcomes"]
    rep.coverage = dict(evaluations=tot["evaluations"], distinct_nontrivial=tot["nontrivial"],
                        rule="case = one module (or module set) of the vocabulary in gen/mirvocab.py: every opcode in every operand form incl. alias annotations, every item kind and adjacency pair, every string byte, "
                             "boundary immediates, size cases; " + what + "; evaluations = cases x {prod, asan} builds; non-trivial = case that completed the whole round trip",
                        cases=len(cs), distinct_texts=len(outcomes), executed_both_sides=tot["executed"], samples=samples, exhaustive=exh)
    rep.assumptions = ["modules after MIR_load_module are not covered (cross-module references print as m.name, which is not input syntax)"]
    return rep.finish()

def run(tier):
    return run_mode("C10", tier, "text", "t1=MIR_output(m), m'=scan(t1) in a fresh context, MIR_output(m')==t1 byte for byte, API-level structural equality of m and m', equal interpretation results for executable cases")
