"""C03 - behaviour is independent of the execution interface chosen at link time."""
from core import build, runner

SRCS = ["checks/c03_interfaces.c", "core/vp.c", "core/mirh.c", "core/refinterp.c"]

def run(tier):
    rep = runner.Report("C03", tier, "exploration")
    exe = build.link_driver("c03", "prod", SRCS, tus=("mir", "mir-gen"))
    res = runner.run_driver(exe, tier, "C03", case_timeout=20, deadline=3000 if tier == "thorough" else 900)
    rep.add_driver_result(res)
    st = res["stats"]
    rep.coverage = dict(evaluations=st.get("evaluations", 0), distinct_nontrivial=res["nontrivial"],
                        rule="case = (two-module program, history of entry calls): 6 edge kinds x 8 target kinds x 8 signatures x every sequence of up to " + ("5" if tier == "thorough" else "4") +
                             " calls over the 3 entry points; each history runs in a fresh context under MIR_interp (reference) and under the interpreter C interface, eager, lazy and lazy-BB generation (" + ("-O0..-O3" if tier == "thorough" else "-O0 and -O2") +
                             "), entry addresses taken once after linking; evaluations = (case, interface, level) executions compared on every return value, the state data item and the native-call log",
                        cases=res["done"], total_cases=res["ncases"], distinct_observed_behaviours=len(res["outcomes"]), samples=res["samples"], exhaustive=res["exhaustive"])
    rep.assumptions = ["MIR_interp is the reference: a disagreement is reported whichever side is wrong", "programs stay inside the enumerated edge/target/signature alphabet; property insns are not used"]
    return rep.finish()
