"""C13 - imports bind to the most recently loaded export for any load/link history (explicit-state BFS on the real context)."""
from core import build, runner
SRCS = ["checks/c13_link_history.c", "core/vp.c", "core/mirh.c", "core/refinterp.c"]

def run(tier):
    rep = runner.Report("C13", tier, "model_checking")
    exe = build.link_driver("c13", "prod", SRCS, tus=("mir", "mir-gen"))
    res = runner.run_driver(exe, tier, "C13", nshards=1, case_timeout=3000, deadline=3300)
    rep.add_driver_result(res)
    st = res["stats"]
    rep.coverage = dict(states=st.get("states", 0), transitions=st.get("transitions", 0), traces_validated_against_impl=st.get("transitions", 0),
                        max_depth=st.get("max:depth", 0), binding_observations=st.get("binding_observations", 0), unconstrained_transitions=st.get("unconstrained_transitions", 0),
                        samples=res["samples"], exhaustive=res["exhaustive"],
                        explanation="BFS over all histories of load(a1|a2|d1|d2|b|c|e|g), load_external(v x2, w), link, link-with-resolver, permit-redefinition up to the depth; every transition executes the real API call on a context rebuilt by replaying the history, "
                                    "in lock step with the reference model (name -> latest definition, pending list); after every link each linked importer's entry function is interpreted and must return the version bound at its link step; error codes are compared")
    rep.assumptions = ["a function definition replacing an external or data definition of the same name without permission is treated as unconstrained (the property speaks of a second exported function)",
                       "pending list and permission flag are not observable through the API and enter the canonical state from the model"]
    return rep.finish()
