/* debugging aid: mirrun <file.mir> <engine: -1 interp, 0..3 gen level> <a> <b> [debuglevel]  -- runs f(a,b,m,q,x,y) */
#include "mirh.h"
#include <stdio.h>
#include <stdlib.h>
#include <string.h>
int main (int argc, char **argv) {
  FILE *fp = fopen (argv[1], "r"); static char txt[1 << 20]; size_t n = fread (txt, 1, sizeof txt - 1, fp); txt[n] = 0;
  int lvl = atoi (argv[2]); long a = strtol (argv[3], 0, 0), b = strtol (argv[4], 0, 0);
  MIR_context_t ctx = MIR_init (); MIR_scan_string (ctx, txt);
  for (MIR_module_t m = DLIST_HEAD (MIR_module_t, *MIR_get_module_list (ctx)); m; m = DLIST_NEXT (MIR_module_t, m)) MIR_load_module (ctx, m);
  for (int i = 0; i < mh_n_exts; i++) MIR_load_external (ctx, mh_exts[i].name, mh_exts[i].addr);
  MIR_item_t f = NULL;
  for (MIR_module_t m = DLIST_HEAD (MIR_module_t, *MIR_get_module_list (ctx)); m; m = DLIST_NEXT (MIR_module_t, m))
    for (MIR_item_t it = DLIST_HEAD (MIR_item_t, m->items); it; it = DLIST_NEXT (MIR_item_t, it)) if (it->item_type == MIR_func_item && !strcmp (it->u.func->name, "f")) f = it;
  mh_mem_reset ();
  if (lvl < 0) { MIR_link (ctx, MIR_set_interp_interface, NULL); MIR_val_t r, v[6]; v[0].i = a; v[1].i = b; v[2].a = mh_buf[0]; v[3].a = mh_buf[1]; v[4].d = 1.5; v[5].d = -2.0;
    MIR_interp_arr (ctx, f, &r, 6, v); printf ("interp -> %ld (%#lx)\n", r.i, r.i); if (argc > 5) MIR_output (ctx, stdout); }
  else { MIR_gen_init (ctx); MIR_gen_set_optimize_level (ctx, lvl); if (argc > 5) { MIR_gen_set_debug_file (ctx, stdout); MIR_gen_set_debug_level (ctx, atoi (argv[5])); }
    MIR_link (ctx, MIR_set_gen_interface, NULL); fprintf (stderr, "generated\n");
    long (*fn) (long, long, void *, void *, double, double) = f->addr; long r = fn (a, b, mh_buf[0], mh_buf[1], 1.5, -2.0); printf ("gen-O%d -> %ld (%#lx)\n", lvl, r, r); }
  char lt[2000]; mh_log_text (lt, sizeof lt); printf ("calls: %s\n", lt);
  return 0;
}
#include "vp.h"
void drv_init (int t) {} uint64_t drv_ncases (void) { return 0; } void drv_case (uint64_t i) {} void drv_describe (uint64_t i, char *b, size_t n) { b[0] = 0; }
