#!/usr/bin/env python3
"""tools/design_findings.py - regenerate the table of repaired defects in DESIGN.md §5.1 from KNOWN_FINDINGS.txt (fixed: lines)."""
import re
V = "/verif"
s = open(V + "/DESIGN.md").read()
rows = []
for l in open(V + "/KNOWN_FINDINGS.txt"):
    m = re.match(r"fixed: property=(C\d+) (\S+) (.*)", l.strip())
    if m: rows.append((m.group(1), m.group(2), m.group(3)))
rows.sort(key=lambda r: r[0])
tab = "| property | commit | what failed |\n|---|---|---|\n" + "\n".join("| %s | `%s` | %s |" % (p, h, t.replace("|", "\\|")[:420]) for p, h, t in rows) + "\n"
a = s.index("| property | commit | what failed |"); b = s.index("### 5.2 Genuine defects recorded, not repaired")
s = s[:a] + tab + "\n" + s[b:]
s = re.sub(r"\n\d+ repairs\.  Each was first reproduced", "\n%d repairs.  Each was first reproduced" % len(rows), s)
open(V + "/DESIGN.md", "w").write(s)
print(len(rows), "fixed entries")
