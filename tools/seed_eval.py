#!/usr/bin/env python3
"""tools/seed_eval.py <ID> <A|B> [tier] [check ids...] - copy a seeded change produced by a sub-agent from /tmp/seed/<ID>/SEED/<X> into
/verif/seeded/<ID>-<X>/ (patch.diff, demo/, meta.json), apply it to /repo's working tree, run the named checks (default: the property's own
check, quick tier), restore /repo, and record the verdict in seeded/<ID>-<X>/result.json.  Never commits in /repo."""
import json, os, shutil, subprocess, sys, time
V = "/verif"
def sh(cmd, **kw): return subprocess.run(cmd, shell=True, capture_output=True, text=True, **kw)
def main():
    pid, x = sys.argv[1], sys.argv[2]; tier = sys.argv[3] if len(sys.argv) > 3 else "quick"; checks = sys.argv[4:] or [pid]
    root = os.environ.get("SEED_ROOT", "/tmp/seed"); tag = os.environ.get("SEED_TAG", "")  # second round: SEED_ROOT=/tmp/seed2 SEED_TAG=R2
    src = "%s/%s/SEED/%s" % (root, pid, x); dst = "%s/seeded/%s-%s%s" % (V, pid, tag, x)
    if os.path.isdir(src):
        os.makedirs(dst, exist_ok=True)
        for n in ("patch.diff", "meta.json"): shutil.copy(os.path.join(src, n), os.path.join(dst, n))
        if os.path.isdir(os.path.join(src, "demo")): shutil.copytree(os.path.join(src, "demo"), os.path.join(dst, "demo"), dirs_exist_ok=True)
    assert sh("git -C /repo status --porcelain --untracked-files=no").stdout.strip() == "", "/repo working tree is not clean"
    r = sh("git -C /repo apply --check %s/patch.diff" % dst)
    if r.returncode: print("patch does not apply:", r.stderr); return 2
    sh("git -C /repo apply %s/patch.diff" % dst)
    res = {}
    try:
        for c in checks:
            t0 = time.time(); r = sh("cd %s && ./check %s --tier %s" % (V, c, tier))
            viol = [l for l in r.stdout.splitlines() if l.startswith("VIOLATION")]
            kinds = sorted(set(l.strip()[:300] for l in r.stdout.splitlines() if l.strip().startswith("kind=")))[:6]
            res[c] = dict(exit=r.returncode, violations=len(viol), seconds=round(time.time() - t0, 1), first=kinds, tail=r.stdout.strip().splitlines()[-1:] )
            print(c, "exit", r.returncode, "violations", len(viol), "%.0fs" % (time.time() - t0)); print("\n".join(kinds[:3]))
    finally:
        sh("git -C /repo checkout -- .")
        sh("cd %s && git checkout -- evidence replays 2>/dev/null" % V)
    old = {}
    p = os.path.join(dst, "result.json")
    if os.path.exists(p): old = json.load(open(p))
    old.setdefault(tier, {}).update(res)
    json.dump(old, open(p, "w"), indent=1)
    return 0
sys.exit(main())
