#!/usr/bin/env python3
"""debug aid: run the C01 driver on a family range: tools/runfam.py LO:HI [tier] [mode]"""
import sys, time, importlib
sys.path.insert(0, '/verif')
from core import build, runner
m = importlib.import_module('checks.c01_gen_vs_interp')
exe = build.link_driver("c01", "prod", m.SRCS, tus=("mir", "mir-gen"))
fam = sys.argv[1]; tier = sys.argv[2] if len(sys.argv) > 2 else "quick"
env = {"VP_FAMILIES": fam}
if len(sys.argv) > 3: env["VP_MODE"] = sys.argv[3]
t = time.time()
res = runner.run_driver(exe, tier, "C01dbg", env=env, case_timeout=10)
kinds = {}
for idx, kind, desc, msg in res["fails"]: kinds[kind] = kinds.get(kind, 0) + 1
print(fam, "done", res["done"], "of", res["ncases"], "%.1fs" % (time.time() - t), kinds, {k: v for k, v in res["stats"].items() if not k.startswith("programs:")})
seen = set()
for f in res["fails"]:
    key = (f[1], f[3][:40])
    if key in seen: continue
    seen.add(key)
    if len(seen) > 12: break
    print("   ", f[0], f[1], f[2][:900], "::", f[3][:300])
