#!/bin/sh
# builds /verif/build/bin/mirrun from the current /repo tree
cd /verif && OBJS=$(python3 -c "
from core import build
print(' '.join(build.lib('prod',('mir','mir-gen'))))") && gcc -O1 -g -w -I/repo -Icore tools/mirrun.c core/mirh.c core/refinterp.c core/vp.c $OBJS -lm -ldl -o build/bin/mirrun
